#!/bin/bash
# Apply every change in MAP.tsv to /repo in turn, confirm the pinned tests still pass, run the listed
# checks (ALL = every registered check), revert. Results in RESULTS.tsv.
# M*/X* are property-breaking changes (expected: detected); N_* are behaviour-preserving (expected: quiet).
cd /verif/sensitivity
: > RESULTS.tsv
ALL="C01 C02 C03 C04 C05 C06 C07 C08 C09 C10 C11 C12 C13 C14 C15 C16 C17 C18 C19"
while IFS=$'\t' read -r name checks; do
  [ -z "$name" ] && continue
  git -C /repo apply "/verif/sensitivity/$name.diff" || { echo -e "$name\tAPPLY-FAILED" >> RESULTS.tsv; continue; }
  tests=$(cd /repo && CARGO_NET_OFFLINE=true cargo test --workspace --no-fail-fast --offline 2>&1 | grep -E "^test result" | awk '{p+=$4; f+=$6} END {print p" passed "f" failed"}')
  [ "$checks" = "ALL" ] && checks=$ALL
  for c in $checks; do
    out=$(cd /verif && VERIF_OUT=/verif/out/sens ./check $c quick 2>&1)
    code=$?
    rules=$(echo "$out" | grep -oE "rule=C[0-9]+\.[A-Za-z0-9]+" | sort -u | tr '\n' ' ')
    echo -e "$name\t$c\texit=$code\t$tests\t$rules" >> RESULTS.tsv
  done
  git -C /repo checkout -- .
done < MAP.tsv
rm -rf /verif/out/sens
cat RESULTS.tsv
