#!/bin/bash
# usage: run.sh <mutant.diff> <Cxx> [tier]   -- applies the change to /repo, runs the check, reverts
set -u
D=$(readlink -f "$1"); P=$2; T=${3:-quick}
git -C /repo apply "$D" || { echo "apply failed"; exit 3; }
trap 'git -C /repo checkout -- . ' EXIT
cd /verif && VERIF_OUT=/tmp/sens_out ./check "$P" "$T" 2>&1 | grep -E "VIOLATION|KNOWN|rule=|runs=|HARNESS|error" | head -12
echo "exit=${PIPESTATUS[0]}"
