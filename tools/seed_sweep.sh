#!/bin/bash
# Run every quick check under several VERIF_SEED values: any VIOLATION / HARNESS line on the unchanged tree is a false alarm to fix.
ROOT=$(cd "$(dirname "$0")/.." && pwd)
cd "$ROOT"
for seed in ${SEEDS:-2 3 5 8 13 21 34 55 89 144}; do
  for c in C01 C02 C03 C04 C05 C06 C07 C08 C09 C10 C11 C12 C13 C14 C15 C16 C17 C18 C19; do
    out=$(VERIF_SEED=$seed VERIF_EVIDENCE_DIR=$ROOT/out/sweep_evidence ./check $c quick 2>&1)
    code=$?
    echo "seed=$seed $c exit=$code $(echo "$out" | grep -E 'runs=' | sed 's/.*runs=/runs=/')"
    echo "$out" | grep -E "^VIOL|HARNESS|BUILD|rule=" | cut -c1-300
  done
done
