#!/bin/bash
# Determinism proof: the first N run indices of every batch of every property, executed in
# separate processes at 1, 4 and 16 workers (twice at 16); all outputs must be identical.
set -u
N=${VERIF_DET_N:-300}
ROOT=${VERIF_ROOT:-/verif}; BIN=$ROOT/sim/target/release/sim
D=$(mktemp -d $ROOT/out/det.XXXXXX)
t0=$(date +%s)
VERIF_WORKERS=16 $BIN determinism $N > $D/a.txt &
VERIF_WORKERS=4 $BIN determinism $N > $D/b.txt &
wait
VERIF_WORKERS=16 $BIN determinism $N > $D/c.txt &
VERIF_WORKERS=1 $BIN determinism $((N/10)) > $D/d.txt &
wait
t1=$(date +%s)
runs=$(wc -l < $D/a.txt)
ok=true
cmp -s $D/a.txt $D/b.txt || ok=false
cmp -s $D/a.txt $D/c.txt || ok=false
# the 1-worker leg covers a prefix of the indices
python3 - "$D" <<'PY' || ok=false
import sys
d=sys.argv[1]
a={tuple(l.split()[:2]):l for l in open(d+'/a.txt')}
bad=[l for l in open(d+'/d.txt') if a.get(tuple(l.split()[:2]))!=l]
sys.exit(1 if bad else 0)
PY
errors=$(grep -c ERROR $D/a.txt)
mkdir -p $ROOT/evidence
cat > $ROOT/evidence/determinism.json <<JSON
{"runs_compared": $runs, "executions_per_run": 3, "worker_counts": [16, 4, 16, 1], "separate_processes": 4,
 "identical": $ok, "harness_errors": $errors, "seed": ${VERIF_SEED:-1}, "wall_s": $((t1-t0)),
 "what_is_compared": "sha256 of the canonical JSON of every history record, number of violations, number of logged decisions"}
JSON
cat $ROOT/evidence/determinism.json
rm -rf "$D"
$ok && [ "$errors" = 0 ] && exit 0
echo "DETERMINISM FAILURE"; exit 2
