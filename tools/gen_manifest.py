#!/usr/bin/env python3
"""Regenerate /verif/MANIFEST.json. BUILT lists the properties whose checks are registered."""
import json, sys

BUILT = {
 "C01": ("two-party CUP exchange simulation with in-flight tampering vs independent reference verifier", "6.C01",
         "Seeded search over exchanges and one in-flight mutation each; the real verifier's verdict is compared in both directions with an independent reference verifier written from the statement. Sampling, not proof: a clean batch is evidence that no sampled mutation class is accepted and no authentic exchange rejected.",
         "Trusted: p256/ecdsa/sha2/hex as the definition of a valid signature; http::HeaderValue as the definition of deliverable ETag bytes."),
 "C02": ("deterministic simulation of the whole update flow with a forging network adversary", "6.C02",
         "The real state machine with the real CUP handler runs against a reference server; at every request position the adversary may deliver attractive forgeries or replays. Rules check the absence of every listed side effect per unauthenticated exchange and, dually, that authentic responses are acted upon.",
         "Ground truth 'authentic' from the independent reference verifier; environment keeps the documented contracts."),
 "C03": ("deterministic simulation; per-request URL/nonce/metadata oracle over service-URL variants", "6.C03",
         "Every request put on the simulated wire is checked against an independent string-level split of the configured URL, nonce freshness across lifetimes, and the metadata handed to the installer.",
         "Independent URL splitter; nonce freshness over the sampled histories only."),
 "C04": ("deterministic simulation with seeded fault injection; path oracle from environment observations", "6.C04",
         "Seeded search over transport/HTTP/parse/policy/installer outcome products in start and one-shot mode; the announced states, server-response event and result are compared with the path computed from server ground truth and the simulated embedder's own records (both directions).",
         "Installer returns one result per offered app in response order; documents have unique app ids."),
 "C05": ("deterministic simulation; consent oracle over policy answer sequences, timers and control requests", "6.C05",
         "Seeded policy answer sequences (with varying request parameters) interleaved with timers and control requests; every request, install and reboot must be preceded by the matching consent and carry the consented parameters.",
         "Pings during a reboot wait use fixed parameters by design of the statement."),
 "C06": ("deterministic simulation with stratified per-attempt fault sequences and entropy differential re-runs", "6.C06",
         "Per-attempt outcomes of the first check are stratified over the adversary alphabet^3; retry/no-retry, backoff windows, id freshness and metrics are checked per check; jitter by re-running the same schedule under 8 entropy streams. The embedder's neighbour task changes an app's cohort hint in the shared app set, so that it can land between two attempts: the payload of a retry must not change.",
         "X-Retry-After reading per statement ('+N' either way)."),
 "C07": ("deterministic simulation with header-value faults, probe restarts after every commit and real crashes", "6.C07",
         "Header-value classes x status x request kind; a reference model of the interval is compared with every policy argument, announcement and with what a machine rebuilt on each committed map presents. A partial-storage-fault batch makes writes and removals of the neighbouring key last_update_time fail: the interval must still reach storage.",
         "Atomic commit; '+N' and duplicate headers accept any listed reading."),
 "C08": ("deterministic simulation of a volatile-cache disk with crash injection and probe restarts; 3-field reference model", "6.C08",
         "Histories of checks and pings over all outcome classes; the model (failures, last contact) is compared with announcements, policy arguments, the state presented by a machine rebuilt on every committed map, and by the machine really rebuilt after a crash at a drawn interaction. What a machine presents at start-up is also compared with an independent reading of the stored integers.",
         "Storage contract (atomic commit, read-your-writes); which clock reading inside the check becomes the last-contact time is open."),
 "C09": ("deterministic simulation; per-app reference record vs requests, policy arguments and probe restarts", "6.C09",
         "Responses with every subset of cohort fields (absent vs empty) and daystart for any subset/order of the app set; record compared with the next requests, policy arguments and restarts with embedder presets. Joint commit rule: a commit that still restores the previous app data must also still hold the previous last-contact time.",
         "Unique app ids in server documents."),
 "C11": ("deterministic simulation of control-handle clients with seeded select! order; interval oracle on sequence numbers", "6.C11",
         "Requests are released inside in-flight operations with batch readiness; each reply must be justified by a policy decision / busy interval inside [invoke, reply]; on-demand upgrade both ways; gone-after-drop; wake-up without timer in a far-timer profile.",
         "A request unanswered when the run is cut is not judged."),
 "C12": ("deterministic simulation with late / reordered timer firing", "6.C12",
         "Timers fire late and in any order; a check or ping not attributable to a control request must come after all timers of its wait fired; arming arguments must equal the policy's answer. Restarts included: the first wait of a lifetime, also one that finds an installed update not yet booted into, is a wait like any other.",
         "Timers never fire early (Timer contract)."),
 "C10": ("deterministic simulation; per-path prescription of event reports with per-report delivery faults", "6.C10",
         "Multi-app responses x policy decisions x installer result vectors x delivery outcome of each report; the event-bearing requests of every completed check are compared (count, order, apps, codes, versions) with the path's prescription, and lost-event accounting is checked per undeliverable report.",
         "Empty-app-list reports may be sent or not; lost-event count for a multi-app single-event report is 1 or one per app."),
 "C13": ("deterministic simulation of consumer polling schedules: generator programs in isolation and the state machine under lazy / spurious polling", "6.C13",
         "Random generator programs under random consumer schedules through all four adaptors (items in order, exactly one completion, end, back-pressure, wake-up discipline, termination), plus in-situ back-pressure and progress-order rules on the state machine under lazy consumers. The simulated installer repeats progress values, cancels reports after their first poll and has two reports in flight at once; a report returns to the installer only after the observer has taken its value (reports that overlap a control request under way are left out); the observer locks the shared storage or app set while handling an event.",
         "into_complete hides item receipt; a halt is judged only while the stream is alive."),
 "C14": ("deterministic simulation with hostile inputs and differential re-runs (storage failures on/off)", "6.C14",
         "Garbage/bit-flipped/truncated bodies, hostile stored values, malformed URLs, wall-clock jumps, metrics errors and crashes with a formatting log subscriber installed; any panic while library code runs is a violation; the same seed is re-run with storage failures switched off and requests/events must be identical. ETags with a request-hash half of another length and arbitrary ETag texts arrive in situ with CUP on; a run that does not return is reported as a hang.",
         "Policy/installer answers conform to their contracts; differential rule within one lifetime."),
 "C15": ("deterministic simulation; wire-shape oracle (independent encoder) on every request sent in situ, plus a direct-builder harness for operation sequences", "6.C15",
         "Every request the state machine sends in whole-flow runs is decoded at the simulated server and compared with an independently written encoder applied to the model state. Only request shapes the state machine actually issues are covered (including the same app id added twice, via an app list with a repeated id); other builder call sequences are not claimed. A second harness (batch c15-direct) drives RequestBuilder directly with drawn operation sequences {add update check, add ping, add event, set ids, build}, builds in mid-sequence and twice, and compares each built request as a JSON value with an independent encoder of the operations so far (no schedule or fault in that batch; DESIGN.md 5B).",
         "App state from policy arguments (C09 checks those); versions rebuilt from configured components."),
 "C16": ("deterministic simulation; in-situ parser oracle on bytes arriving from the faulty network", "6.C16",
         "Grammar-generated documents, byzantine documents and garbage/truncated/bit-flipped/deeply nested bodies reach the parser through the state machine (CUP off); the announced decode is compared with the document or with an independent reading of the bytes; required-field removals must be rejected; no panic. Documents nested up to 10^6 levels deep at the positions where the grammar accepts arbitrary JSON are parsed in child processes of the simulator (a stack overflow aborts the process); a child that dies is a violation.",
         "serde_json::Value as the independent reading."),
 "C17": ("deterministic simulation of client <-> real mock server in one process with reconfiguration races", "6.C17",
         "The real client stack and the real mock_omaha_server::handle_request exchange requests through the transport seam; answers must parse with the client parser, list requested apps in order with the configured decision, verify with the client verifier for this exchange only, and lead the state machine to the configured outcome; admin reconfigurations race with exchanges. Also: the client library used directly to send update check + event on one app; a second connection stalled mid-body while the client's request must still be answered (handler futures polled by hand, bounded).",
         "Ping-only requests are outside the stated class and not sent; absolute-form to origin-form URI conversion in the seam."),
 "C18": ("deterministic simulation of install histories with crash / reboot injection and restart on target or other version", "6.C18",
         "A model of first-seen time, consecutive failed installs and the pending-reboot record is compared with metrics and restart behaviour over histories with crashes at drawn interactions (biased to recovery paths), reboots and version changes. One known finding (double report when the process dies between report and clear) is listed in KNOWN_FINDINGS.txt. Since the third wave: wall-clock steps inside a lifetime with a per-trip model of the waited-for-reboot report (retried until the clocks allow it), partial storage faults on the first-seen time (plan id rollback), times outside the i64-microsecond range modelled exactly, and a directed batch for a report that is delayed past another install.",
         "1 us tolerance; attempts cut by a crash may count or not; which clock reading of a trip is the loop-top one is not observable (a report must match some reading of its trip)."),
 "C19": ("deterministic simulation of clock trajectories x storage round trip x restart, and of the comparison clause at the timer seam", "6.C19",
         "Pre-epoch, sub-microsecond and beyond-i64-microsecond wall clocks plus hostile stored integers; every stored time must come back truncated toward the epoch at microsecond precision (exact comparisons) or be dropped exactly when it does not fit, and be re-persisted unchanged; what a restarted machine presents is compared with an independent reading of the stored integer (either sign, sub-second magnitudes). The pure two-clock algebra and truncate_submicrosecond_walltime are not reachable through any seam and are NOT claimed. Rule R5: the simulated timer asks the library's is_after_or_eq_any when it is armed and when it fires, under wall-clock steps between the two; the answer is compared with the integer comparison of the recorded clock values.",
         "Partial claim: persistence path and the comparison clause at the timer seam; the rest of the two-clock algebra is not claimed (DESIGN.md 6.C19)."),
}

NOT_APPLICABLE = {
 "C20": "pure string/array functions (parse, print, order of versions): no schedule, clock, fault or interleaving can change their result and no simulated seam carries a version string into the library; deterministic simulation does not apply (DESIGN.md 6.C20)",
}

PENDING_REASON = "check not built yet in this snapshot (work in progress, see DESIGN.md build order)"

def main():
    props = [json.loads(l) for l in open('/verif/properties.jsonl')]
    checks = []
    na = []
    for p in props:
        pid = p['id']
        if pid in BUILT:
            tech, ref, text, note = BUILT[pid]
            level = "exploration"
            checks.append({
                "property_id": pid,
                "quick_cmd": f"./check {pid} quick",
                "thorough_cmd": f"./check {pid} thorough",
                "evidence_file": f"/verif/evidence/{pid}.json",
                "replay_cmd_template": "./check replay {path}",
                "engine": "omaha-sim",
                "level_claimed": {"category": level, "text": text, "design_ref": ref},
                "level_note": note,
                "technique": "deterministic simulation with fault injection: " + tech,
            })
        elif pid in NOT_APPLICABLE:
            na.append({"property_id": pid, "reason": NOT_APPLICABLE[pid]})
        else:
            na.append({"property_id": pid, "reason": PENDING_REASON})
    m = {
        "version": 1,
        "setup_cmd": "cd /verif/sim && CARGO_NET_OFFLINE=true cargo build --release --offline",
        "hooks": {
            "guard": "none (no source changes in /repo)",
            "enable": "n/a: /verif/sim path-depends on /repo/omaha-client and /repo/mock-omaha-server and carries the seams (select! order, entropy) in vendored copies of futures-util and getrandom under /verif/sim/vendor, patched in the simulator's own workspace only",
            "baseline_off_cmd": "cd /repo && cargo test --workspace --no-fail-fast --offline",
            "source_commits": [],
            "add_only": True,
        },
        "engines": [{
            "name": "omaha-sim",
            "path": "/verif/sim",
            "serves_properties": sorted(BUILT.keys()),
            "kind_free_text": "single-process deterministic discrete-event simulator (own executor, virtual clock, simulated network/disk/timers/policy/installer, seeded keyed decisions, minimising replay) running the real omaha_client state machine",
        }],
        "checks": checks,
        "notes": "All checks: ./check <id> quick|thorough (cwd /verif); VERIF_SEED honoured (default 1); exit 0 clean, 1 + VIOLATION line with a minimised replay file, 2 harness/build error. Known findings: /verif/KNOWN_FINDINGS.txt.",
        "not_applicable": na,
    }
    json.dump(m, open('/verif/MANIFEST.json', 'w'), indent=1)
    print("checks:", len(checks), "not_applicable:", len(na))

main()
