#!/bin/bash
# show.sh <replay.json> <from_seq> <to_seq>: print the records of a replayed run in a window
VERIF_DUMP=1 /verif/sim/target/release/sim replay "$1" | python3 -c "
import sys,json,re
lo,hi=int(sys.argv[1]),int(sys.argv[2])
for line in sys.stdin:
    line=line.strip()
    if not line.startswith('{'):
        continue
    try: r=json.loads(line)
    except Exception: continue
    if lo<=r['seq']<=hi:
        k=r['kind']
        s=json.dumps(k)
        s=re.sub(r'\"apps\": \[[^\]]*\]','\"apps\":[..]',s)
        if 'ClockRead' in s or '\"Poll\"' in s: continue
        print(r['seq'],r['vt'],s[:int(sys.argv[3])])
" $2 $3 ${4:-260}
