#!/bin/bash
# Run every thorough check in turn (from a snapshot: `vp run --timeout 6h -- tools/thorough_all.sh`).
ROOT=$(cd "$(dirname "$0")/.." && pwd)
cd "$ROOT"
for c in C01 C02 C03 C04 C05 C06 C07 C08 C09 C10 C11 C12 C13 C14 C15 C16 C17 C18 C19; do
  echo "=== $c thorough $(date +%T)"
  ./check $c thorough 2>&1 | grep -E "^VIOL|KNOWN|rule=|HARNESS|BUILD|runs=" | cut -c1-400
  echo "exit=${PIPESTATUS[0]}"
done
