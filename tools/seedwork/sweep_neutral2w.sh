#!/bin/bash
# second neutral wave: own property's check first, then related ones
for i in 01 02 03 04 05 06 07 08 09 10 11 12 13 14 15 16 17 18 19; do for n in 1 2 3; do
  P=/tmp/wt/BC$i/_neutral2/patch$n.diff
  [ -f $P ] || { echo "=== N2 C$i-$n MISSING"; continue; }
  files=$(grep '^+++ b/' $P | sed 's#+++ b/##' | tr '\n' ' ')
  extra=""
  case "$files" in
    *state_machine.rs*|*update_check.rs*|*builder.rs*) extra="C04 C06 C08 C10 C11 C12 C13 C14 C18";;
    *request_builder.rs*|*protocol/request.rs*|*version.rs*) extra="C15 C05 C10";;
    *cup_ecdsa.rs*|*http_uri_ext.rs*) extra="C01 C02 C03 C17";;
    *response.rs*|*protocol.rs*|*app_set.rs*|*common.rs*) extra="C16 C09 C04";;
    *mock-omaha-server*) extra="C17";;
    *time*|*storage.rs*) extra="C19 C08 C18";;
    *async_generator.rs*) extra="C13 C04";;
    *http_request.rs*) extra="C06 C04";;
  esac
  checks=$(echo "C$i $extra" | tr ' ' '\n' | awk '!s[$0]++' | tr '\n' ' ')
  echo "=== N2 C$i-$n files: $files checks: $checks"
  ./neutraltest2.sh $P $checks 2>&1 | grep -v conda
done; done
