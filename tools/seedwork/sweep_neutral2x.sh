#!/bin/bash
# supplementary: re-run the runs that alarmed, and the checks the first pass left out for state-machine patches
rerun() { echo "=== N2X $1 checks: ${@:2}"; ./neutraltest2.sh /tmp/wt/B${1%-*}/_neutral2/patch${1#*-}.diff "${@:2}" 2>&1 | grep -v conda; }
rerun C02-3 C08; rerun C03-2 C06; rerun C07-2 C08; rerun C09-3 C09; rerun C10-1 C08; rerun C10-2 C18; rerun C11-2 C12; rerun C04-2 C13
for i in 02 03 04 05 06 07 08 09 10 11 12 13 14 18 19; do for n in 1 2 3; do
  P=/tmp/wt/BC$i/_neutral2/patch$n.diff
  grep -q "state_machine" $P || continue
  checks=$(echo "C05 C07 C09 C19 C02 C03" | tr ' ' '\n' | grep -v "C$i" | tr '\n' ' ')
  echo "=== N2X C$i-$n checks: $checks"
  ./neutraltest2.sh $P $checks 2>&1 | grep -v conda
done; done
