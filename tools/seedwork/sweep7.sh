#!/bin/bash
export SIMSRC=/verif/sim
for i in 01 02 03 04 05 06 07 08 09 10 11 12 13 14 15 16 17 18 19; do for n in 1 2; do
  echo "=== W7 C$i-$n"
  ./seedtest2.sh /tmp/wt/BC$i/_seed/patch$n.diff C$i 2>&1 | grep -v conda | grep -E "rule=|runs=|exit=|APPLY|HARNESS|error" | awk '/rule=/{if(++r>2)next}1' | cut -c1-300
done; done
