#!/bin/bash
# confirm_seed.sh <id> <n>: verify a sub-agent's seed in the scratch worktree /tmp/wt/confirm
ID=$1; N=$2; S=/tmp/wt/${DIRPFX:-}$ID/_seed
W=/tmp/wt/confirm
cd $W && git checkout -q -- . && git clean -fdq -e target
PKG=omaha_client
if grep -q " b/mock-omaha-server/tests/seed_demo_$N.rs" $S/demo$N.diff; then PKG=mock-omaha-server; SEL="--test seed_demo_$N";
elif grep -q " b/omaha-client/tests/seed_demo_$N.rs" $S/demo$N.diff; then SEL="--test seed_demo_$N"; else SEL="--lib seed_demo_$N"; fi
export CARGO_NET_OFFLINE=true
res() { grep -E "^test result" | awk '{p+=$4; f+=$6} END {print p" passed "f" failed"}'; }
# 1. demo on pristine
git apply $S/demo$N.diff || { echo "$ID $N demo-apply-failed"; exit 1; }
A=$(cargo test -p $PKG --offline $SEL 2>&1 | res)
# 2. demo with patch
git apply $S/patch$N.diff || { echo "$ID $N patch-apply-failed"; exit 1; }
B=$(cargo test -p $PKG --offline $SEL 2>&1 | res)
# 3. patch alone, whole suite
git checkout -q -- . && git clean -fdq -e target && git apply $S/patch$N.diff
C=$(cargo test --workspace --no-fail-fast --offline 2>&1 | res)
git checkout -q -- . && git clean -fdq -e target
echo "$ID patch$N | demo on pristine: $A | demo with patch: $B | suite with patch: $C"
