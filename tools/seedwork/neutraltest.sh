#!/bin/bash
# neutraltest.sh <patch.diff> <check> [<check>...]: apply a behaviour-preserving patch in the scratch worktree and run checks; all must exit 0
P=$(readlink -f "$1"); shift
cd /tmp/wt/test && git checkout -q -- . && git clean -fdq -e target && git apply "$P" || { echo APPLY-FAILED; exit 3; }
rsync -a --exclude target --exclude Cargo.toml ${SIMSRC:-/verif/sim}/ /tmp/simseed/
cd /tmp/simseed && CARGO_NET_OFFLINE=true cargo build --release --offline 2>&1 | grep -E "^error" -A8 | head -20
for C in "$@"; do
  VERIF_OUT=/tmp/simseed/out VERIF_EVIDENCE_DIR=/tmp/simseed/evidence ./target/release/sim check $C quick 2>&1 | grep -E "VIOLATION|rule=|runs=|HARNESS" | cut -c1-300
  echo "  $C exit=${PIPESTATUS[0]}"
done
cd /tmp/wt/test && git checkout -q -- .
