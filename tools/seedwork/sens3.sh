#!/bin/bash
# sensitivity regression in the scratch worktree test3 (suite results are taken from the last full all.sh run)
ALL="C01 C02 C03 C04 C05 C06 C07 C08 C09 C10 C11 C12 C13 C14 C15 C16 C17 C18 C19"
: > /tmp/wt/sens3.tsv
while IFS=$'\t' read -r name checks; do
  [ -z "$name" ] && continue
  [ "$checks" = "ALL" ] && checks=$ALL
  for c in $checks; do
    out=$(SIMSRC=/verif/sim ./seedtest3.sh /verif/sensitivity/$name.diff $c 2>&1)
    code=$(echo "$out" | grep -oE "exit=[0-9]+" | tail -1)
    echo "$out" | grep -q APPLY-FAILED && code="APPLY-FAILED"
    rules=$(echo "$out" | grep -oE "rule=C[0-9]+\.[A-Za-z0-9]+" | sort -u | tr '\n' ' ')
    tests=$(awk -F'\t' -v n="$name" -v c="$c" '$1==n && $2==c {print $4}' /verif/sensitivity/RESULTS.tsv | head -1)
    echo -e "$name\t$c\t$code\t$tests\t$rules" >> /tmp/wt/sens3.tsv
  done
done < /verif/sensitivity/MAP.tsv
