#!/bin/bash
# seedtest.sh <patch.diff> <Cxx> [tier]: run a check of the (synced) simulator against a scratch worktree with the patch applied
P=$(readlink -f "$1"); C=$2; T=${3:-quick}
cd /tmp/wt/test && git checkout -q -- . && git clean -fdq -e target && git apply "$P" || { echo APPLY-FAILED; exit 3; }
rsync -a --exclude target --exclude Cargo.toml ${SIMSRC:-/verif/sim}/ /tmp/simseed/
cd /tmp/simseed && CARGO_NET_OFFLINE=true cargo build --release --offline 2>&1 | grep -E "^error" -A8 | head -20
VERIF_OUT=/tmp/simseed/out VERIF_EVIDENCE_DIR=/tmp/simseed/evidence ./target/release/sim check $C $T 2>&1 | grep -E "VIOLATION|KNOWN|rule=|runs=|HARNESS" | cut -c1-330
echo "exit=${PIPESTATUS[0]}"
cd /tmp/wt/test && git checkout -q -- .
