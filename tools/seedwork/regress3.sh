#!/bin/bash
# regress3.sh <Cxx>...: all stored seeds of the given properties against the dev simulator
for c in "$@"; do for d in /verif/seeded/$c-*/; do
  id=$(basename $d)
  echo "=== R $id"
  ./seedtest3.sh $d/patch.diff $c 2>&1 | grep -v conda | grep -E "rule=|runs=|exit=|APPLY" | awk '/rule=/{if(++r>1)next}1' | cut -c1-200
done; done
