//! The run driver: one hand-written single-threaded executor + discrete-event scheduler.
//! It owns every decision of who runs next and which pending operation completes next.

use crate::conv;
use crate::env::*;
use crate::hist::*;
use crate::profile::{Mode, Profile};
use crate::refserver;
use crate::rng::{Decision, Draws};
use crate::world::*;
use futures::future::LocalBoxFuture;
use futures::prelude::*;
use futures::stream::LocalBoxStream;
use omaha_client::common::{App, CheckOptions, UserCounting};
use omaha_client::configuration::{Config, Updater};
use omaha_client::cup_ecdsa::{PublicKeyAndId, PublicKeys, StandardCupv2Handler};
use omaha_client::protocol::request::{InstallSource, OS};
use omaha_client::protocol::Cohort;
use omaha_client::state_machine::{
    ControlHandle, StartUpdateCheckResponse, StateMachineBuilder, StateMachineEvent,
};
use std::cell::RefCell;
use std::collections::BTreeMap;
use std::rc::Rc;
use std::sync::atomic::{AtomicBool, AtomicU64, Ordering};
use std::sync::{Arc, Mutex};
use std::task::{Context, Poll, Wake, Waker};

thread_local! {
    static TLS_WORLD: RefCell<Option<Shared>> = const { RefCell::new(None) };
}

fn tls_world() -> Option<Shared> {
    TLS_WORLD.with(|t| t.borrow().clone())
}

fn select_choice(n: usize) -> usize {
    match tls_world() {
        Some(w) => {
            let _g = EnvGuard::enter();
            let mut w = lock(&w);
            let k = w.select_ord;
            w.select_ord += 1;
            let life = w.life;
            w.draws.draw(&format!("L{life}/select#{k}"), n as u64) as usize
        }
        None => 0,
    }
}

fn fill_entropy(buf: &mut [u8]) {
    let _g = EnvGuard::enter();
    let (seed, ord) = match tls_world() {
        Some(w) => {
            let mut w = lock(&w);
            let o = w.entropy_ord;
            w.entropy_ord += 1;
            (w.entropy_seed, o)
        }
        None => (0x1234_5678, 0),
    };
    let mut x = crate::rng::splitmix(seed ^ crate::rng::splitmix(ord.wrapping_add(1)));
    for chunk in buf.chunks_mut(8) {
        x = crate::rng::splitmix(x);
        let b = x.to_le_bytes();
        chunk.copy_from_slice(&b[..chunk.len()]);
    }
}

/// getrandom 0.4 (used by uuid) custom backend.
#[no_mangle]
unsafe extern "Rust" fn __getrandom_v03_custom(dest: *mut u8, len: usize) -> Result<(), getrandom04::Error> {
    let buf = std::slice::from_raw_parts_mut(dest, len);
    fill_entropy(buf);
    Ok(())
}

pub fn install_hooks(w: Option<Shared>) {
    let on = w.is_some();
    TLS_WORLD.with(|t| *t.borrow_mut() = w);
    if on {
        futures_util::__private::async_await::__set_sim_choice(Some(select_choice));
        getrandom02::__set_sim_entropy(Some(fill_entropy));
    } else {
        futures_util::__private::async_await::__set_sim_choice(None);
        getrandom02::__set_sim_entropy(None);
    }
}

pub struct WakeFlag {
    pub flag: AtomicBool,
    pub count: AtomicU64,
}
impl WakeFlag {
    pub fn new() -> Arc<Self> {
        Arc::new(WakeFlag { flag: AtomicBool::new(false), count: AtomicU64::new(0) })
    }
}
impl Wake for WakeFlag {
    fn wake(self: Arc<Self>) {
        self.wake_by_ref();
    }
    fn wake_by_ref(self: &Arc<Self>) {
        self.flag.store(true, Ordering::SeqCst);
        self.count.fetch_add(1, Ordering::SeqCst);
    }
}

#[derive(Clone, Debug, Default)]
pub struct RunCfg {
    pub seed: u64,
    pub overrides: BTreeMap<String, u64>,
    pub prefix_overrides: Vec<(String, u64)>,
    pub entropy_seed: Option<u64>,
    /// storage ops instantaneous + disk failure draws forced off (C14 differential twin)
    pub healthy_disk_twin: bool,
    pub default_zero: bool,
}

#[derive(Clone, Debug)]
pub struct PanicInfo {
    pub msg: String,
    pub location: String,
    pub in_sut: bool,
}

pub struct RunOut {
    pub hist: History,
    pub decisions: Vec<Decision>,
    pub stats: BTreeMap<String, u64>,
    pub panic: Option<PanicInfo>,
    pub steps: u64,
    pub vt_end: u64,
}

#[derive(Clone)]
pub struct ClientReq {
    pub source: InstallSource,
}

#[derive(Clone)]
pub struct Setup {
    pub versions: Vec<Vec<u32>>,
    pub apps: Vec<App>,
    pub system_idx: usize,
    pub service_url: String,
    pub cup: bool,
    /// the embedder supplies a CUP handler but leaves Config::omaha_public_keys empty
    pub cfg_keys_absent: bool,
    pub mode_start: bool,
    pub client_reqs: Vec<Vec<ClientReq>>,
    pub os_version: String,
}

fn draw_app(w: &mut World, i: usize) -> (App, Vec<u32>) {
    let key = format!("setup/app#{i}");
    let inv = w.profile.invalid_app_permille;
    // some ids in the GUID form with upper-case letters (keys derived from an id must keep its case)
    let mut id = if w.draws.draw(&format!("{key}/id.form"), 4) == 3 { format!("{{8A69D345-D564-463C-AFF1-A69D9E53{i:04X}}}") } else { format!("app-{i}") };
    let mut version: Vec<u32> = match w.draws.draw(&format!("{key}/version"), 4) {
        0 => vec![1, 2, 3, 4],
        1 => vec![1],
        2 => vec![0, 9],
        _ => vec![10, 0, u32::MAX],
    };
    if w.draws.chance(&format!("{key}/invalid"), inv) {
        w.stat("config.invalid_app");
        if w.draws.draw(&format!("{key}/invalid.kind"), 2) == 0 {
            id = String::new();
        } else {
            version = vec![0];
        }
    }
    let ver: omaha_client::version::Version = match version.len() {
        1 => [version[0]].into(),
        2 => [version[0], version[1]].into(),
        3 => [version[0], version[1], version[2]].into(),
        _ => [version[0], version[1], version[2], version[3]].into(),
    };
    let mut app = App::builder().id(id).version(ver).build();
    if w.draws.draw(&format!("{key}/fp"), 3) == 1 {
        app.fingerprint = Some(format!("fp-{i}"));
    }
    let pre = w.profile.preset_permille;
    if w.draws.chance(&format!("{key}/preset.cohort"), pre) {
        app.cohort.id = Some(format!("preset-cohort-{i}"));
    }
    if w.draws.chance(&format!("{key}/preset.hint"), pre) {
        // (one in three with characters outside ASCII: the bytes put on the wire, the bytes kept
        // for CUP and the bytes handed to the installer must still be the same)
        app.cohort.hint = Some(if w.draws.draw(&format!("{key}/preset.hint.nonascii"), 3) == 2 { format!("pr\u{e9}set-hint-{i}-\u{6e20}\u{9053}") } else { format!("preset-hint-{i}") });
    }
    if w.draws.chance(&format!("{key}/preset.name"), pre) {
        app.cohort.name = Some(format!("preset-name-{i}"));
    }
    if w.draws.chance(&format!("{key}/preset.uc"), pre) {
        app.user_counting = UserCounting::ClientRegulatedByDate(Some(100 + i as u32));
    }
    let ex = w.profile.extra_fields_permille;
    if w.draws.chance(&format!("{key}/extra"), ex) {
        app.extra_fields.insert("ap".to_string(), if w.draws.draw(&format!("{key}/extra.nonascii"), 3) == 2 { format!("tr\u{e4}ck-{i}\u{1f600}") } else { format!("track-{i}") });
        if w.draws.draw(&format!("{key}/extra2"), 2) == 1 {
            app.extra_fields.insert("product_id".to_string(), "p\"q".to_string());
        }
    }
    (app, version)
}

pub const URLS: [&str; 10] = [
    "https://omaha.example.test/update?return=/done?ok",
    "http://omaha.example.test:8080/u?a=b&flag&empty=&&z=1",
    "https://omaha.example.test/service/update/json",
    "http://omaha.example.test",
    "http://omaha.example.test/",
    "https://omaha.example.test:8443/a/b?x=1&y=two",
    "http://[fe80::1]:8080/update",
    "https://omaha.example.test/u?",
    "http://10.0.0.1/json?product=a%20b",
    "https://omaha.example.test/path/only/",
];

pub const BAD_URLS: [&str; 4] = ["", "not a url", "http://exa mple.test/", "http://omaha.example.test/\u{7f}"];

fn draw_setup(w: &mut World) -> Setup {
    let p = w.profile.clone();
    let napps = 1 + w.draws.draw("setup/napps", p.apps_max.max(1) as u64) as usize;
    let drawn: Vec<(App, Vec<u32>)> = (0..napps).map(|i| draw_app(w, i)).collect();
    let versions: Vec<Vec<u32>> = drawn.iter().map(|d| d.1.clone()).collect();
    let mut apps: Vec<App> = drawn.into_iter().map(|d| d.0).collect();
    if napps >= 2 && w.draws.chance("setup/dup_app", p.dup_app_permille) {
        // the same app id listed twice with differing data: requests keep the first insertion
        w.stat("config.repeated_app_id");
        let id0 = apps[0].id.clone();
        let last = napps - 1;
        apps[last].id = id0;
        apps[last].cohort.hint = Some("second-insertion-hint".to_string());
    }
    else if napps >= 2 && w.draws.draw("setup/case_variant_ids", 8) == 7 {
        // two different apps whose ids differ in the case of letters only
        w.stat("config.app_ids_differ_in_case_only");
        let swapped: String = apps[0].id.chars().map(|c| if c.is_ascii_lowercase() { c.to_ascii_uppercase() } else { c.to_ascii_lowercase() }).collect();
        apps[1].id = swapped;
    }
    let system_idx = if w.draws.chance("setup/system_nonzero", p.system_app_nonzero_permille) && napps > 1 {
        1 + w.draws.draw("setup/system_idx", napps as u64 - 1) as usize
    } else {
        0
    };
    let mut service_url = URLS[0].to_string();
    if p.url_variants {
        service_url = URLS[w.draws.draw("setup/url", URLS.len() as u64) as usize].to_string();
    }
    if w.draws.chance("setup/bad_url", p.bad_url_permille) {
        w.stat("config.bad_service_url");
        service_url = BAD_URLS[w.draws.draw("setup/bad_url.v", BAD_URLS.len() as u64) as usize].to_string();
    }
    let cup = match p.cup_permille {
        0 => false,
        1000 => true,
        x => w.draws.chance("setup/cup", x),
    };
    let cfg_keys_absent = cup && w.draws.chance("setup/cfg_keys_absent", 200);
    if cfg_keys_absent {
        w.stat("config.handler_without_config_keys");
    }
    // key configuration
    let nk = refserver::N_KEYS;
    let latest_key = w.draws.draw("setup/key.latest", (nk - 1) as u64) as usize;
    let latest_id = refserver::KEY_IDS[w.draws.draw("setup/key.latest_id", refserver::KEY_IDS.len() as u64) as usize];
    w.server.client_latest = (latest_id, latest_key);
    w.server.attacker_key = nk - 1;
    let nhist = w.draws.draw("setup/key.nhist", 3) as usize;
    w.server.client_historical.clear();
    for h in 0..nhist {
        let id = latest_id.wrapping_add(1000 + h as u64);
        w.server.client_historical.push((id, (latest_key + 1 + h) % (nk - 1)));
    }
    w.server.server_keys.clear();
    match w.draws.weighted("setup/key.server", &p.key_server) {
        0 => w.server.server_keys.push((latest_id, latest_key)),
        1 => {
            // the server rotated: its latest is newer, the client's latest is historical there
            w.server.server_keys.push((latest_id.wrapping_add(5000), (latest_key + 3) % (nk - 1)));
            w.server.server_keys.push((latest_id, latest_key));
        }
        2 => {
            // the server does not know the client's key id at all
            w.stat("config.server_lacks_key");
            w.server.server_keys.push((latest_id.wrapping_add(5000), (latest_key + 3) % (nk - 1)));
        }
        _ => {
            // same id, different key (misconfiguration = every response is a forgery)
            w.stat("config.server_wrong_key_same_id");
            w.server.server_keys.push((latest_id, (latest_key + 2) % (nk - 1)));
        }
    }
    let mode_start = match p.mode {
        Mode::Start => true,
        Mode::Oneshot => false,
        Mode::Either => w.draws.draw("setup/mode", 2) == 0,
    };
    // wall clock at start
    match w.draws.weighted("setup/wall_init", &p.wall_init) {
        0 => {}
        1 => {
            w.stat("time.wall_init_pre_epoch");
            w.wall_base = -(5 * 365 * 86400i128) * SEC as i128 - 123_456_789;
        }
        2 => {
            w.stat("time.wall_init_far_future");
            // beyond i64 microseconds: just past the limit, or past u64 microseconds as well
            w.wall_base = match w.draws.draw("setup/wall_init.far", 3) {
                0 => (i64::MAX as i128) * 1000 + 5_000_000_000,
                1 => ((1i128 << 64) + 12_345) * 1000 + 678,
                _ => ((1i128 << 65) + 1_700_000_000_000_000) * 1000,
            };
        }
        _ => {
            w.stat("time.wall_init_sub_us");
            w.wall_base += 1 + w.draws.draw("setup/wall_init.subus", 999) as i128;
        }
    }
    if w.draws.draw("setup/wall_subns", 2) == 1 {
        // sub-microsecond component in ordinary runs too
        w.wall_base += w.draws.draw("setup/wall_subns.v", 1000) as i128;
    }
    // crash point
    if w.draws.chance("crash/enabled", p.crash_permille) {
        let at = 1 + w.draws.draw("crash/at", p.crash_horizon.max(1));
        w.crash_at = Some(at);
    }
    // wall-clock jumps while running
    if w.draws.chance("setup/clock_jumps", p.clock_jump_permille) {
        let n = 1 + w.draws.draw("setup/clock_jumps.n", 3);
        for j in 0..n {
            let at = 1 + w.draws.draw(&format!("setup/clock_jump#{j}/at"), p.crash_horizon.max(1));
            let k = w.draws.weighted(&format!("setup/clock_jump#{j}/kind"), &p.clock_classes);
            let delta: i128 = match k {
                0 => {
                    // forwards: seconds, or (one in four) 73+ hours - enough to undo the 72 h backwards step across a reboot
                    let v = w.draws.draw(&format!("setup/clock_jump#{j}/v"), 100) as i128;
                    if v % 4 == 3 {
                        (73 + v) * 3600 * SEC as i128
                    } else {
                        (v + 1) * SEC as i128
                    }
                }
                1 => -((1 + w.draws.draw(&format!("setup/clock_jump#{j}/v"), 1000) as i128) * 3600 * SEC as i128),
                2 => -(1_700_000_000i128 + 86400 * 365 * 3) * SEC as i128,
                3 => {
                    // less than a microsecond, either way
                    let v = 1 + w.draws.draw(&format!("setup/clock_jump#{j}/v"), 999) as i128;
                    if w.draws.draw(&format!("setup/clock_jump#{j}/back"), 2) == 1 {
                        -v
                    } else {
                        v
                    }
                }
                _ => {
                    if w.draws.draw(&format!("setup/clock_jump#{j}/far"), 3) == 2 {
                        ((1i128 << 64) + 1_700_000_012_345) * 1000 + 17
                    } else {
                        (i64::MAX as i128) * 1000 + 17
                    }
                }
            };
            w.jumps.push((at, delta));
        }
    }
    // control clients
    let mut client_reqs = vec![];
    if p.clients_max > 0 && mode_start {
        let nclients = w.draws.draw("setup/nclients", p.clients_max as u64 + 1) as usize;
        let classes: [&'static str; 9] = [
            "timer",
            "http",
            "policy.next",
            "policy.allowed",
            "plan",
            "install",
            "install.step",
            "policy.rebootallowed",
            "policy.canstart",
        ];
        let mut total = 0;
        for c in 0..nclients {
            let nreq = 1 + w.draws.draw(&format!("setup/client#{c}/nreq"), 3) as usize;
            let mut reqs = vec![];
            for r in 0..nreq {
                if total >= p.requests_max as usize {
                    break;
                }
                total += 1;
                let key = format!("setup/client#{c}/req#{r}");
                let source = if w.draws.draw(&format!("{key}/ondemand"), 2) == 1 {
                    InstallSource::OnDemand
                } else {
                    InstallSource::ScheduledTask
                };
                let class = classes[w.draws.draw(&format!("{key}/class"), classes.len() as u64) as usize];
                let ordinal = w.draws.draw(&format!("{key}/ordinal"), 6);
                let delay = match w.draws.draw(&format!("{key}/delay"), 3) {
                    0 => 0,
                    1 => MS,
                    _ => 2 * SEC,
                };
                w.triggers.push(Trigger { class, ordinal, client: c as u32, req: r as u32, delay });
                reqs.push(ClientReq { source });
            }
            client_reqs.push(reqs);
        }
    }
    w.disk_instant = p.disk.slow == 0;
    w.commit_fail_drops = p.disk.commit_fail_drops_pending && w.draws.draw("setup/commit_fail_drops", 2) == 1;
    if w.draws.chance("setup/hostile_disk", p.disk.hostile_init) {
        w.stat("disk.hostile_initial_contents");
        hostile_disk(w, &apps);
    }
    if p.server == crate::profile::ServerKind::Mock {
        // one-shot checks run with default parameters (updates enabled): the mock's assertion must match
        w.server.mock_disable_updates = mode_start && w.draws.draw("setup/mock/disable_updates", 3) == 2;
        let ids: Vec<String> = apps.iter().map(|a| a.id.clone()).collect();
        let vers: Vec<String> = apps.iter().map(|a| a.version.to_string()).collect();
        let dis = w.server.mock_disable_updates;
        crate::mockserver::setup(w, &ids, &vers, cup, dis);
        // admin reconfigurations land right after drawn HTTP exchanges
        let n = w.draws.draw("setup/mock/nreconfig", p.admin_reconfigs as u64 + 1);
        for k in 0..n {
            let at = w.draws.draw(&format!("setup/mock/reconfig#{k}/at"), 8);
            w.triggers.push(Trigger { class: "__admin", ordinal: at, client: k as u32, req: 0, delay: 0 });
        }
    }
    Setup { versions, apps, system_idx, service_url, cup, cfg_keys_absent, mode_start, client_reqs, os_version: "1.0.0.0".to_string() }
}

fn hostile_disk(w: &mut World, apps: &[App]) {
    let int_keys = [
        "consecutive_failed_update_checks",
        "last_update_time",
        "server_dictated_poll_interval",
        "update_first_seen_time",
        "update_finish_time",
        "consecutive_failed_install_attempts",
    ];
    let ints: [i64; 15] = [
        0,
        1,
        -1,
        -999_999,
        -1_000_001,
        999_999,
        i64::MAX,
        i64::MIN,
        i64::MIN + 1,
        u32::MAX as i64,
        u32::MAX as i64 + 1,
        i32::MAX as i64,
        1_700_000_000_000_000,
        -62_000_000_000_000_000,
        86_400_000_000,
    ];
    for k in int_keys {
        match w.draws.draw(&format!("setup/hostile/{k}"), 4) {
            0 => {}
            1 | 2 => {
                let v = ints[w.draws.draw(&format!("setup/hostile/{k}.v"), ints.len() as u64) as usize];
                w.disk.committed.insert(k.to_string(), DiskVal::I(v));
            }
            _ => {
                w.disk.committed.insert(k.to_string(), DiskVal::S("not an int".into()));
            }
        }
    }
    match w.draws.draw("setup/hostile/install_plan_id", 3) {
        0 => {}
        1 => {
            w.disk.committed.insert("install_plan_id".into(), DiskVal::S("plan".into()));
        }
        _ => {
            w.disk.committed.insert("install_plan_id".into(), DiskVal::I(5));
        }
    }
    match w.draws.draw("setup/hostile/target_version", 3) {
        0 => {}
        1 => {
            w.disk.committed.insert("target_version".into(), DiskVal::S("1.0.0.0".into()));
        }
        _ => {
            w.disk.committed.insert("target_version".into(), DiskVal::B(true));
        }
    }
    for (i, a) in apps.iter().enumerate() {
        match w.draws.draw(&format!("setup/hostile/app#{i}"), 5) {
            0 => {}
            1 => {
                w.disk.committed.insert(a.id.clone(), DiskVal::S("not json".into()));
            }
            2 => {
                w.disk.committed.insert(a.id.clone(), DiskVal::S("{\"cohort\":{},\"user_counting\":{\"ClientRegulatedByDate\":-1}}".into()));
            }
            3 => {
                w.disk.committed.insert(a.id.clone(), DiskVal::I(1));
            }
            _ => {
                w.disk.committed.insert(
                    a.id.clone(),
                    DiskVal::S("{\"cohort\":{\"cohort\":\"stored-c\",\"cohortname\":\"stored-n\"},\"user_counting\":{\"ClientRegulatedByDate\":4294967295}}".into()),
                );
            }
        }
    }
}

fn make_config(setup: &Setup, w: &World, os_version: &str) -> (Config, Option<StandardCupv2Handler>) {
    let keys = refserver::keys();
    let pk = PublicKeys {
        latest: PublicKeyAndId {
            id: w.server.client_latest.0,
            key: keys[w.server.client_latest.1].verifying_key(),
        },
        historical: w
            .server
            .client_historical
            .iter()
            .map(|(id, k)| PublicKeyAndId { id: *id, key: keys[*k].verifying_key() })
            .collect(),
    };
    let handler = if setup.cup { Some(StandardCupv2Handler::new(&pk)) } else { None };
    let config = Config {
        updater: Updater { name: "sim-updater".to_string(), version: [0, 1, 2, 3].into() },
        os: OS {
            platform: "sim-os".to_string(),
            version: os_version.to_string(),
            service_pack: "sp".to_string(),
            arch: "simarch".to_string(),
        },
        service_url: setup.service_url.clone(),
        omaha_public_keys: if setup.cup && !setup.cfg_keys_absent { Some(pk) } else { None },
    };
    (config, handler)
}

type Stream = LocalBoxStream<'static, StateMachineEvent>;

enum LifeEnd {
    Crash,
    Reboot,
    Done,
    StreamEnd,
    Stuck,
    StepLimit,
}

struct ClientFut {
    client: u32,
    req: u32,
    fut: LocalBoxFuture<'static, Result<StartUpdateCheckResponse, omaha_client::state_machine::StateMachineGone>>,
    flag: Arc<WakeFlag>,
    poll_scheduled: bool,
}

fn poll_fut<T>(fut: &mut LocalBoxFuture<'static, T>, flag: &Arc<WakeFlag>) -> Poll<T> {
    let waker = Waker::from(flag.clone());
    let mut cx = Context::from_waker(&waker);
    let _g = SutGuard::enter();
    fut.as_mut().poll(&mut cx)
}

/// Build the app set + state machine for one lifetime and run it until it ends.
fn run_life(world: &Shared, setup: &Setup, steps: &mut u64) -> LifeEnd {
    let (config, handler, os_version) = {
        let w = lock(world);
        let (c, h) = make_config(setup, &w, &setup.os_version);
        (c, h, setup.os_version.clone())
    };
    {
        // later lifetimes can crash too, with a bias towards their first interactions (recovery paths)
        let mut w = lock(world);
        let life = w.life;
        let outage = w.profile.net.outage_permille;
        w.server.outage_status = if w.draws.chance(&format!("L{life}/outage"), outage) {
            w.stat("net.outage_lifetime");
            Some([503u16, 429, 500, 404, 302, 1, 2][w.draws.draw(&format!("L{life}/outage.status"), 7) as usize])
        } else {
            None
        };
        w.server.outage_plain = w.server.outage_status.is_some() && w.draws.draw(&format!("L{life}/outage.plain"), 2) == 0;
        if life > 0 && w.crash_at.is_none() {
            let cp = w.profile.crash_permille;
            if w.draws.chance(&format!("L{life}/crash/enabled"), cp) {
                let horizon = w.profile.crash_horizon.max(1);
                let early = w.draws.draw(&format!("L{life}/crash/early"), 3) == 0;
                let at = if early { 1 + w.draws.draw(&format!("L{life}/crash/at"), 14) } else { 1 + w.draws.draw(&format!("L{life}/crash/at"), horizon) };
                w.crash_at = Some(w.interactions + at);
            }
        }
    }
    {
        let mut w = lock(world);
        w.select_ord = 0;
        let presets = conv::apps(&setup.apps);
        let boot = w.boot;
        let key_id = w.server.client_latest.0;
        w.rec(Kind::LifeStart {
            mode: if setup.mode_start { "start".into() } else { "oneshot".into() },
            os_version,
            cup: setup.cup,
            service_url: setup.service_url.clone(),
            presets,
            system_idx: setup.system_idx,
            boot,
            key_id,
            versions: setup.versions.clone(),
            updater_name: "sim-updater".into(),
            updater_version: vec![0, 1, 2, 3],
            os: vec!["sim-os".into(), setup.os_version.clone(), "sp".into(), "simarch".into()],
        });
        let map = w.disk.committed.clone();
        w.rec(Kind::DiskCommitted { map });
    }
    let clock = SimClock { w: world.clone() };
    let policy = SimPolicy { w: world.clone(), clock };
    let http = SimHttp { w: world.clone() };
    let installer = SimInstaller { w: world.clone() };
    let timer = SimTimer { w: world.clone() };
    let metrics = SimMetrics { w: world.clone() };
    let disk = Rc::new(futures::lock::Mutex::new(SimDisk { w: world.clone() }));
    let app_set = Rc::new(futures::lock::Mutex::new(SimAppSet { apps: setup.apps.clone(), system_idx: setup.system_idx, w: Some(world.clone()) }));
    let disk_rc = disk.clone();
    let apps_rc = app_set.clone();
    let builder = StateMachineBuilder::new(policy, http, installer, timer, metrics, disk, config, app_set, handler);

    let consumer_flag = WakeFlag::new();

    // ---- construction (reads the disk)
    let mut start_fut: LocalBoxFuture<'static, (Option<ControlHandle>, Stream)> = if setup.mode_start {
        async move {
            let (h, s) = builder.start().await;
            (Some(h), s.boxed_local())
        }
        .boxed_local()
    } else {
        async move {
            let s = builder.oneshot_check().await;
            (None, s.boxed_local())
        }
        .boxed_local()
    };
    let (mut handle, stream) = loop {
        match poll_fut(&mut start_fut, &consumer_flag) {
            Poll::Ready(x) => break x,
            Poll::Pending => {
                if lock(world).crash_hit.is_some() {
                    drop(start_fut);
                    return LifeEnd::Crash;
                }
                // fire the next completion
                let ev = lock(world).queue.pop();
                match ev {
                    Some(std::cmp::Reverse(ev)) => {
                        *steps += 1;
                        fire_simple(world, ev);
                    }
                    None => {
                        lock(world).rec(Kind::Stuck);
                        return LifeEnd::Stuck;
                    }
                }
            }
        }
    };
    drop(start_fut);
    let mut stream: Option<Stream> = Some(stream);
    lock(world).rec(Kind::Started);
    {
        let mut w = lock(world);
        let t = w.vt;
        w.push(t, 2, What::ConsumerPoll);
    }
    let mut consumer_poll_scheduled = true;
    let mut client_handles: Vec<Option<ControlHandle>> =
        setup.client_reqs.iter().map(|_| handle.clone()).collect();
    let mut spare_handle: Option<ControlHandle> = None;
    // a client may make all its requests through one and the same handle object (instead of a
    // fresh clone per request); it may also abandon a request it has started (drop the future)
    let mut sticky_handles: Vec<Option<std::rc::Rc<futures::lock::Mutex<ControlHandle>>>> = {
        let mut w = lock(world);
        let life = w.life;
        let rate = w.profile.sticky_handle_permille;
        (0..setup.client_reqs.len())
            .map(|c| {
                if w.draws.chance(&format!("L{life}/client#{c}/sticky"), rate) {
                    handle.clone().map(|h| std::rc::Rc::new(futures::lock::Mutex::new(h)))
                } else {
                    None
                }
            })
            .collect()
    };
    let mut clients: Vec<ClientFut> = vec![];
    let mut consumer_blocked: Option<LocalBoxFuture<'static, ()>> = None;
    let mut neighbours: Vec<(u32, LocalBoxFuture<'static, ()>, Arc<WakeFlag>, bool)> = vec![];
    let mut checks_done = 0u32;
    let mut events_received = 0u64;
    let mut sm_gone = false;
    let mut done_pending = false;
    let mut idle_polls = 0u32;
    let mut last_pending_vt = u64::MAX;
    let max_steps = lock(world).profile.max_steps;
    let max_checks = lock(world).profile.max_checks;
    // scenario events
    {
        let mut w = lock(world);
        let p = w.profile.clone();
        let life = w.life;
        if p.request_at_start_permille > 0 && handle.is_some() {
            let early: Vec<Trigger> = w.triggers.iter().filter(|t| !t.class.starts_with("__")).cloned().collect();
            for tr in early {
                if w.draws.chance(&format!("L{life}/client#{}/req#{}/at_start", tr.client, tr.req), p.request_at_start_permille) {
                    w.triggers.retain(|t| !(t.class == tr.class && t.client == tr.client && t.req == tr.req));
                    w.stat("ctl.request_at_start");
                    let t = w.vt.saturating_add(tr.delay).min(VT_MAX);
                    w.push(t, 1, What::ClientInvoke(tr.client, tr.req));
                }
            }
        }
        if w.draws.chance(&format!("L{life}/neighbour"), p.neighbour_permille) {
            let n = 1 + w.draws.draw(&format!("L{life}/neighbour.n"), 3);
            for k in 0..n {
                let at = w.draws.draw(&format!("L{life}/neighbour#{k}/at"), 60);
                w.triggers.push(Trigger { class: "__neighbour", ordinal: at, client: k as u32, req: 0, delay: 0 });
            }
        }
        if handle.is_some() && w.draws.chance(&format!("L{life}/drop_handles"), p.drop_handles_permille) {
            let at = w.draws.draw(&format!("L{life}/drop_handles.at"), 40);
            w.triggers.push(Trigger { class: "__drop_handles", ordinal: at, client: 0, req: 0, delay: 0 });
        }
        if handle.is_some() && w.draws.chance(&format!("L{life}/drop_stream"), p.drop_stream_permille) {
            let at = 1 + w.draws.draw(&format!("L{life}/drop_stream.at"), 60);
            w.triggers.push(Trigger { class: "__drop_stream", ordinal: at, client: 0, req: 0, delay: 0 });
            spare_handle = handle.clone();
        }
    }

    let end = loop {
        {
            let w = lock(world);
            if w.crash_hit.is_some() {
                break LifeEnd::Crash;
            }
            if w.reboot_requested.is_some() {
                break LifeEnd::Reboot;
            }
        }
        if *steps >= max_steps {
            lock(world).rec(Kind::StepLimit);
            break LifeEnd::StepLimit;
        }
        let ev = lock(world).queue.pop();
        let ev = match ev {
            Some(std::cmp::Reverse(e)) => e,
            None => {
                if sm_gone && clients.is_empty() {
                    break LifeEnd::Done;
                }
                if stream.is_none() {
                    break LifeEnd::Done;
                }
                lock(world).rec(Kind::Stuck);
                break LifeEnd::Stuck;
            }
        };
        *steps += 1;
        match ev.what.clone() {
            What::Complete(_) => {
                let fired = fire_simple(world, ev);
                if fired {
                    idle_polls = 0;
                    // scenario triggers keyed on the number of completions
                    let mut w = lock(world);
                    let n = w.ordinal("__completion");
                    let mut hit = vec![];
                    let mut nb_start: Vec<u32> = vec![];
                    w.triggers.retain(|t| {
                        if (t.class == "__drop_handles" || t.class == "__drop_stream") && t.ordinal == n {
                            hit.push(t.class);
                            false
                        } else if t.class == "__neighbour" && t.ordinal == n {
                            nb_start.push(t.client);
                            false
                        } else {
                            true
                        }
                    });
                    let t = w.vt;
                    for k in nb_start {
                        w.push(t, 1, What::NeighbourStart(k));
                    }
                    for h in hit {
                        if h == "__drop_handles" {
                            w.push(t, 1, What::DropHandles);
                        } else {
                            w.push(t, 1, What::DropStream);
                        }
                    }
                    let sp = w.profile.spurious_poll_permille;
                    let k = w.ordinal("spurious");
                    let life = w.life;
                    if !consumer_poll_scheduled && w.draws.chance(&format!("L{life}/spurious#{k}"), sp) {
                        w.stat("sched.spurious_poll");
                        let t = w.vt;
                        w.push(t, 2, What::ConsumerPoll);
                        consumer_poll_scheduled = true;
                    }
                }
            }
            What::ConsumerPoll => {
                advance(world, ev.t);
                consumer_poll_scheduled = false;
                // an observer that looks into the shared storage while handling an event does not
                // take the next event before it got the lock
                if let Some(fut) = consumer_blocked.as_mut() {
                    consumer_flag.flag.store(false, Ordering::SeqCst);
                    let waker = Waker::from(consumer_flag.clone());
                    let mut cx = Context::from_waker(&waker);
                    if fut.as_mut().poll(&mut cx).is_ready() {
                        consumer_blocked = None;
                    } else {
                        lock(world).rec(Kind::Poll { task: "consumer-storage".into(), ready: false });
                        continue;
                    }
                }
                if let Some(s) = stream.as_mut() {
                    consumer_flag.flag.store(false, Ordering::SeqCst);
                    let waker = Waker::from(consumer_flag.clone());
                    let mut cx = Context::from_waker(&waker);
                    let r = {
                        let _g = SutGuard::enter();
                        s.as_mut().poll_next(&mut cx)
                    };
                    match r {
                        Poll::Ready(Some(e)) => {
                            let rec = {
                                let _g = SutGuard::enter();
                                conv::event(&e)
                            };
                            let mut w = lock(world);
                            if let EventRec::Result(_) = &rec {
                                checks_done += 1;
                            }
                            let is_idle = matches!(&rec, EventRec::State(StateRec::Idle));
                            w.rec(Kind::Event(rec));
                            drop(e);
                            events_received += 1;
                            if checks_done >= max_checks && (is_idle || done_pending) && setup.mode_start {
                                // let the flow reach its next wait, then stop
                                done_pending = true;
                            }
                            let life = w.life;
                            let touch = w.profile.observer_reads_storage_permille;
                            if w.draws.chance(&format!("L{life}/consumer#{events_received}/storage"), touch) {
                                w.stat("sched.observer_locks_storage");
                                drop(w);
                                // ... or into the shared app set
                                let which = lock(world).draws.draw(&format!("L{life}/consumer#{events_received}/storage.which"), 2);
                                let d = disk_rc.clone();
                                let a = apps_rc.clone();
                                let mut fut: LocalBoxFuture<'static, ()> = if which == 0 {
                                    async move {
                                        let _g = d.lock().await;
                                    }
                                    .boxed_local()
                                } else {
                                    lock(world).stat("sched.observer_locks_app_set");
                                    async move {
                                        let _g = a.lock().await;
                                    }
                                    .boxed_local()
                                };
                                consumer_flag.flag.store(false, Ordering::SeqCst);
                                let waker = Waker::from(consumer_flag.clone());
                                let mut cx = Context::from_waker(&waker);
                                if fut.as_mut().poll(&mut cx).is_pending() {
                                    lock(world).stat("sched.observer_waits_for_storage");
                                    consumer_blocked = Some(fut);
                                }
                                w = lock(world);
                            }
                            let lazy = w.profile.lazy_consumer_permille;
                            let d = if w.draws.chance(&format!("L{life}/consumer#{events_received}/lazy"), lazy) {
                                w.stat("sched.lazy_consumer");
                                (1 + w.draws.draw(&format!("L{life}/consumer#{events_received}/lazy.v"), 100)) * SEC
                            } else {
                                0
                            };
                            let t = w.vt.saturating_add(d).min(VT_MAX);
                            w.push(t, 2, What::ConsumerPoll);
                            consumer_poll_scheduled = true;
                        }
                        Poll::Ready(None) => {
                            lock(world).rec(Kind::StreamEnd);
                            stream = None;
                            sm_gone = true;
                            if clients.is_empty() && lock(world).triggers.iter().all(|t| t.class.starts_with("__")) {
                                break LifeEnd::StreamEnd;
                            }
                        }
                        Poll::Pending => {
                            lock(world).rec(Kind::Poll { task: "consumer".into(), ready: false });
                            if done_pending {
                                break LifeEnd::Done;
                            }
                            // busy loop: the task keeps waking itself without anything happening
                            let vt_now = lock(world).vt;
                            if consumer_flag.flag.load(Ordering::SeqCst) && vt_now == last_pending_vt {
                                idle_polls += 1;
                            } else {
                                idle_polls = 0;
                            }
                            last_pending_vt = vt_now;
                            if idle_polls > 300 {
                                lock(world).rec(Kind::Note("spin".into()));
                                break LifeEnd::Stuck;
                            }
                        }
                    }
                }
            }
            What::ClientInvoke(c, r) => {
                advance(world, ev.t);
                let h = match client_handles.get(c as usize).and_then(|h| h.clone()) {
                    Some(h) => Some(h),
                    None => spare_handle.clone(),
                };
                if let Some(h) = h {
                    let source = setup.client_reqs[c as usize][r as usize].source;
                    lock(world).stat("ctl.request");
                    let sticky = sticky_handles.get(c as usize).and_then(|s| s.clone());
                    let fut = match sticky {
                        Some(rc) => {
                            lock(world).stat("ctl.request_through_the_clients_one_handle");
                            let wd = world.clone();
                            async move {
                                // the client's earlier request through this handle may still be under way:
                                // this one is made (and counts as invoked) once the handle is free
                                let mut g = rc.lock().await;
                                {
                                    let _e = EnvGuard::enter();
                                    lock(&wd).rec(Kind::CtlInvoke { client: c, req: r, source: conv::src(source) });
                                }
                                g.start_update_check(CheckOptions { source }).await
                            }
                            .boxed_local()
                        }
                        None => {
                            lock(world).rec(Kind::CtlInvoke { client: c, req: r, source: conv::src(source) });
                            async move {
                                let mut h = h;
                                h.start_update_check(CheckOptions { source }).await
                            }
                            .boxed_local()
                        }
                    };
                    let flag = WakeFlag::new();
                    let mut cf = ClientFut { client: c, req: r, fut, flag, poll_scheduled: false };
                    poll_client(world, &mut cf);
                    // the caller gives up on the request it has just started
                    let abandon = cf.client != u32::MAX && {
                        let mut w = lock(world);
                        let life = w.life;
                        let rate = w.profile.abandon_request_permille;
                        w.draws.chance(&format!("L{life}/client#{c}/req#{r}/abandon"), rate)
                    };
                    if abandon {
                        lock(world).stat("ctl.request_abandoned");
                        lock(world).rec(Kind::CtlAbandon { client: c, req: r });
                        drop(cf);
                    } else {
                        clients.push(cf);
                    }
                    clients.retain(|cf| cf.client != u32::MAX);
                }
            }
            What::ClientPoll(i) => {
                advance(world, ev.t);
                let c = i / 1000;
                let r = i % 1000;
                if let Some(cf) = clients.iter_mut().find(|cf| cf.client == c && cf.req == r) {
                    cf.poll_scheduled = false;
                    poll_client(world, cf);
                }
                clients.retain(|cf| cf.client != u32::MAX);
            }
            What::DropHandles => {
                advance(world, ev.t);
                lock(world).stat("proc.handles_dropped");
                handle = None;
                for s in sticky_handles.iter_mut() {
                    *s = None;
                }
                for (i, h) in client_handles.iter_mut().enumerate() {
                    if h.take().is_some() {
                        lock(world).rec(Kind::CtlHandleDrop { client: i as u32 });
                    }
                }
                lock(world).rec(Kind::CtlHandleDrop { client: u32::MAX });
            }
            What::DropStream => {
                advance(world, ev.t);
                if stream.is_some() {
                    lock(world).stat("proc.stream_dropped");
                    lock(world).rec(Kind::StreamDrop);
                    let s = stream.take();
                    {
                        let mut w = lock(world);
                        w.tearing_down = true;
                    }
                    drop(s);
                    {
                        let mut w = lock(world);
                        w.tearing_down = false;
                        w.ops.clear();
                    }
                    sm_gone = true;
                }
            }
            What::NeighbourStart(k) => {
                advance(world, ev.t);
                // the embedder's own task takes one of the shared locks, one at a time, and releases it
                let which = {
                    let mut w = lock(world);
                    let life = w.life;
                    w.stat("proc.neighbour_holds_lock");
                    w.draws.draw(&format!("L{life}/neighbour#{k}/which"), 2)
                };
                // ... and, holding the app-set lock, may change an app's data (the embedder
                // switches the channel hint of its first app)
                let mutate = which == 1 && {
                    let mut w = lock(world);
                    let life = w.life;
                    let rate = w.profile.neighbour_mutates_permille;
                    w.draws.chance(&format!("L{life}/neighbour#{k}/mutate"), rate)
                };
                let (d, a, wd) = (disk_rc.clone(), apps_rc.clone(), world.clone());
                let fut: LocalBoxFuture<'static, ()> = async move {
                    if which == 0 {
                        let _g = d.lock().await;
                        let id = {
                            let _e = EnvGuard::enter();
                            lock(&wd).new_op("neighbour.hold", None).0
                        };
                        Pend::new(&wd, id, ()).await;
                    } else {
                        let mut _g = a.lock().await;
                        let id = {
                            let _e = EnvGuard::enter();
                            let mut w = lock(&wd);
                            if mutate {
                                let hint = format!("embedder-hint-{k}");
                                let bump = w.profile.neighbour_bumps_version;
                                if let Some(app) = _g.apps.first_mut() {
                                    app.cohort.hint = Some(hint.clone());
                                    let version = if bump {
                                        // the embedder also notes that the app is at another version now
                                        let v = vec![7, 7, 7, k];
                                        app.version = [7u32, 7, 7, k].into();
                                        Some(v)
                                    } else {
                                        None
                                    };
                                    w.stat("embedder.app_set_changed_by_neighbour");
                                    w.rec(Kind::NeighbourMutate { app: app.id.clone(), hint, version });
                                }
                            }
                            w.new_op("neighbour.hold", None).0
                        };
                        Pend::new(&wd, id, ()).await;
                    }
                }
                .boxed_local();
                let flag = WakeFlag::new();
                flag.flag.store(true, Ordering::SeqCst);
                neighbours.push((k, fut, flag, false));
            }
            What::NeighbourPoll(k) => {
                advance(world, ev.t);
                if let Some(nb) = neighbours.iter_mut().find(|n| n.0 == k) {
                    nb.3 = false;
                    nb.2.flag.store(false, Ordering::SeqCst);
                    let waker = Waker::from(nb.2.clone());
                    let mut cx = Context::from_waker(&waker);
                    if nb.1.as_mut().poll(&mut cx).is_ready() {
                        nb.0 = u32::MAX;
                    }
                }
                neighbours.retain(|n| n.0 != u32::MAX);
            }
            What::AdminReconfig(k) => {
                advance(world, ev.t);
                let mut w = lock(world);
                crate::mockserver::reconfigure(&mut w, k);
            }
            What::ClockJump(_) => {
                advance(world, ev.t);
            }
        }
        // wake-ups
        if consumer_flag.flag.swap(false, Ordering::SeqCst) && !consumer_poll_scheduled && stream.is_some() {
            let mut w = lock(world);
            let t = w.vt;
            w.push(t, 2, What::ConsumerPoll);
            consumer_poll_scheduled = true;
        }
        for nb in neighbours.iter_mut() {
            if nb.2.flag.swap(false, Ordering::SeqCst) && !nb.3 {
                let mut w = lock(world);
                let t = w.vt;
                w.push(t, 1, What::NeighbourPoll(nb.0));
                nb.3 = true;
            }
        }
        for cf in clients.iter_mut() {
            if cf.flag.flag.swap(false, Ordering::SeqCst) && !cf.poll_scheduled {
                let mut w = lock(world);
                let t = w.vt;
                w.push(t, 1, What::ClientPoll(cf.client * 1000 + cf.req));
                cf.poll_scheduled = true;
            }
        }
    };
    // ---- teardown: only the committed disk survives
    {
        let mut w = lock(world);
        w.tearing_down = true;
    }
    drop(clients);
    drop(consumer_blocked);
    drop(neighbours);
    drop(stream);
    drop(handle);
    drop(client_handles);
    drop(sticky_handles);
    drop(spare_handle);
    {
        let mut w = lock(world);
        w.tearing_down = false;
        w.ops.clear();
        w.queue.clear();
        w.triggers.retain(|t| !t.class.starts_with("__"));
        w.sent.clear();
        w.http_results.clear();
        if !w.disk.pending.is_empty() {
            w.stat("disk.lost_volatile_writes");
        }
        w.disk.pending.clear();
    }
    end
}

fn poll_client(world: &Shared, cf: &mut ClientFut) {
    cf.flag.flag.store(false, Ordering::SeqCst);
    match poll_fut(&mut cf.fut, &cf.flag) {
        Poll::Ready(r) => {
            let reply = match r {
                Ok(StartUpdateCheckResponse::Started) => CtlReply::Started,
                Ok(StartUpdateCheckResponse::AlreadyRunning) => CtlReply::AlreadyRunning,
                Ok(StartUpdateCheckResponse::Throttled) => CtlReply::Throttled,
                Err(_) => CtlReply::Gone,
            };
            lock(world).rec(Kind::CtlReply { client: cf.client, req: cf.req, reply });
            cf.client = u32::MAX;
        }
        Poll::Pending => {}
    }
}

fn advance(world: &Shared, t: u64) {
    let mut w = lock(world);
    if t > w.vt {
        w.vt = t;
    }
}

/// Fire a completion event. Returns false if the operation no longer exists (cancelled).
fn fire_simple(world: &Shared, ev: QEv) -> bool {
    let id = match ev.what {
        What::Complete(id) => id,
        _ => return false,
    };
    let mut w = lock(world);
    let (label, class, never) = match w.ops.get(&id) {
        Some(op) => (op.label.clone(), op.class, op.never),
        None => return false,
    };
    if never {
        return false;
    }
    if ev.t > w.vt {
        w.vt = ev.t;
    }
    match class {
        "http" => {
            refserver::deliver(&mut w, id, &label);
        }
        "timer" => {
            w.rec(Kind::TimerFire { id });
        }
        _ => {}
    }
    let waker = {
        let op = w.ops.get_mut(&id).unwrap();
        op.fired = true;
        op.waker.take()
    };
    drop(w);
    if let Some(wk) = waker {
        wk.wake();
    }
    true
}

/// What a restarted state machine would present: build a throw-away machine on `map` and
/// read the arguments of its first compute_next_update_time call.
pub fn probe(
    map: &BTreeMap<String, DiskVal>,
    setup: &Setup,
    server: &refserver::ServerState,
    vt: u64,
    wall_base: i128,
    wall_skew: i128,
) -> Option<(Vec<AppRec>, SchedRec, ProtoRec)> {
    let mut pw = World::new(Profile::base("probe"), Draws::new(1));
    pw.is_probe = true;
    pw.quiet = true;
    pw.record_clock = false;
    pw.draws.log_enabled = false;
    pw.vt = vt;
    pw.boot_vt = vt;
    pw.wall_base = wall_base;
    pw.wall_skew = wall_skew;
    pw.disk.committed = map.clone();
    pw.server.client_latest = server.client_latest;
    pw.server.client_historical = server.client_historical.clone();
    let pworld: Shared = Arc::new(Mutex::new(pw));
    let prev = tls_world();
    install_hooks(Some(pworld.clone()));
    let (config, handler) = {
        let w = lock(&pworld);
        make_config(setup, &w, &setup.os_version)
    };
    let clock = SimClock { w: pworld.clone() };
    let builder = StateMachineBuilder::new(
        SimPolicy { w: pworld.clone(), clock },
        SimHttp { w: pworld.clone() },
        SimInstaller { w: pworld.clone() },
        SimTimer { w: pworld.clone() },
        SimMetrics { w: pworld.clone() },
        Rc::new(futures::lock::Mutex::new(SimDisk { w: pworld.clone() })),
        config,
        Rc::new(futures::lock::Mutex::new(SimAppSet { apps: setup.apps.clone(), system_idx: setup.system_idx, w: None })),
        handler,
    );
    let flag = WakeFlag::new();
    let mut fut: LocalBoxFuture<'static, Stream> = async move {
        let (_h, s) = builder.start().await;
        s.boxed_local()
    }
    .boxed_local();
    let mut out = None;
    if let Poll::Ready(mut s) = poll_fut(&mut fut, &flag) {
        for _ in 0..64 {
            let waker = Waker::from(flag.clone());
            let mut cx = Context::from_waker(&waker);
            let r = {
                let _g = SutGuard::enter();
                s.as_mut().poll_next(&mut cx)
            };
            if let Some(c) = lock(&pworld).probe_capture.take() {
                out = Some(c);
                break;
            }
            match r {
                Poll::Ready(None) => break,
                Poll::Ready(Some(_)) => {}
                Poll::Pending => {
                    // operations of a probe world complete at once
                    let ev = lock(&pworld).queue.pop();
                    match ev {
                        Some(std::cmp::Reverse(ev)) => {
                            fire_simple(&pworld, ev);
                        }
                        None => break,
                    }
                }
            }
        }
        lock(&pworld).tearing_down = true;
        drop(s);
    }
    lock(&pworld).tearing_down = true;
    drop(fut);
    install_hooks(prev);
    out
}

/// target version of the most recent install that finished without a failed app (any lifetime)
fn finished_install_target(hist: &History, setup: &Setup) -> Option<String> {
    let sys = &setup.apps[setup.system_idx].id;
    let mut last_plan_target: Option<String> = None;
    let mut out = None;
    for r in hist.iter() {
        match &r.kind {
            Kind::Installer(InstallerRec::CreatePlan { response, .. }) => {
                last_plan_target = None;
                for a in response.get("app").and_then(|a| a.as_array()).into_iter().flatten() {
                    if a.get("appid").and_then(|x| x.as_str()) == Some(sys.as_str()) {
                        last_plan_target = a.get("updatecheck").and_then(|u| u.get("manifest")).and_then(|m| m.get("version")).and_then(|v| v.as_str()).map(|s| s.to_string());
                    }
                }
            }
            Kind::Installer(InstallerRec::InstallDone { results, .. }) => {
                if results.iter().all(|x| *x != InstallRes::Failed) && last_plan_target.is_some() {
                    out = last_plan_target.clone();
                }
            }
            _ => {}
        }
    }
    out
}

fn system_target_version(hist: &History, setup: &Setup) -> Option<String> {
    let sys = &setup.apps[setup.system_idx].id;
    for r in hist.iter().rev() {
        if let Kind::Installer(InstallerRec::CreatePlan { response, .. }) = &r.kind {
            for a in response.get("app").and_then(|a| a.as_array()).into_iter().flatten() {
                if a.get("appid").and_then(|x| x.as_str()) == Some(sys.as_str()) {
                    if let Some(v) = a
                        .get("updatecheck")
                        .and_then(|u| u.get("manifest"))
                        .and_then(|m| m.get("version"))
                        .and_then(|v| v.as_str())
                    {
                        return Some(v.to_string());
                    }
                }
            }
            return None;
        }
    }
    None
}

/// Execute one whole run (all lifetimes) on the current thread.
pub fn run_sm(profile: &Profile, cfg: &RunCfg) -> (RunOut, Shared, Option<Setup>) {
    let mut draws = Draws::new(cfg.seed);
    draws.overrides = cfg.overrides.clone();
    draws.prefix_overrides = cfg.prefix_overrides.clone();
    draws.default_zero = cfg.default_zero;
    let mut p = profile.clone();
    if cfg.healthy_disk_twin {
        p.disk.fail_set = 0;
        p.disk.fail_remove = 0;
        p.disk.fail_commit = 0;
    }
    let mut world = World::new(p, draws);
    if let Some(e) = cfg.entropy_seed {
        world.entropy_seed = e;
    }
    let world: Shared = Arc::new(Mutex::new(world));
    install_hooks(Some(world.clone()));
    let mut steps = 0u64;
    let mut setup_out = None;
    let result = std::panic::catch_unwind(std::panic::AssertUnwindSafe(|| {
        let mut setup = {
            let mut w = lock(&world);
            draw_setup(&mut w)
        };
        setup_out = Some(setup.clone());
        let max_l = lock(&world).profile.max_lifetimes;
        let mut life_setups: Vec<Setup> = vec![];
        for life in 0..max_l {
            lock(&world).life = life;
            life_setups.push(setup.clone());
            let end = run_life(&world, &setup, &mut steps);
            let why = match end {
                LifeEnd::Crash => "crash",
                LifeEnd::Reboot => "reboot",
                LifeEnd::Done => "done",
                LifeEnd::StreamEnd => "stream_end",
                LifeEnd::Stuck => "stuck",
                LifeEnd::StepLimit => "step_limit",
            };
            let mut w = lock(&world);
            if let LifeEnd::Crash = end {
                let at = w.crash_hit.clone().unwrap_or_default();
                w.stat("proc.crash");
                w.rec(Kind::Crash { at });
            }
            w.rec(Kind::LifeEnd { why: why.to_string() });
            w.crash_hit = None;
            w.crash_at = None;
            match end {
                LifeEnd::Crash => {
                    // the crash may be a power cut: the device can come up in the slot of an update
                    // that finished installing earlier (the target version of the last finished install)
                    if let Some(v) = finished_install_target(&w.hist, &setup) {
                        if w.draws.draw(&format!("L{life}/crash.boots_target"), 3) == 0 {
                            w.stat("proc.power_cycle_into_target");
                            setup.os_version = v;
                        }
                    }
                    // process restart: monotonic clock keeps running; some time passes
                    let d = w.draws.draw(&format!("L{life}/restart.delay"), 4);
                    w.vt = w.vt.saturating_add([0, SEC, 60 * SEC, 3600 * SEC][d as usize]).min(VT_MAX);
                }
                LifeEnd::Reboot => {
                    w.stat("proc.reboot");
                    w.reboot_requested = None;
                    let d = w.draws.draw(&format!("L{life}/reboot.delay"), 4);
                    w.vt = w.vt.saturating_add([SEC, 30 * SEC, 600 * SEC, 86400 * SEC][d as usize]).min(VT_MAX);
                    w.boot += 1;
                    w.boot_vt = w.vt;
                    // wall-clock relation across the reboot
                    let jp = w.profile.clock_jump_permille;
                    if w.draws.chance(&format!("L{life}/reboot.walljump"), jp) {
                        let classes = w.profile.clock_classes;
                        let k = w.draws.weighted(&format!("L{life}/reboot.walljump.kind"), &classes);
                        let delta: i128 = match k {
                            0 => 5 * SEC as i128,
                            1 => -(3 * 86400i128) * SEC as i128,
                            2 => -(w.wall_ns()) - 1_000_000_123,
                            3 => 777,
                            _ => (i64::MAX as i128) * 1000,
                        };
                        w.wall_skew += delta;
                        w.stat(&format!("time.wall_jump_{k}"));
                        w.rec(Kind::ClockJump { delta });
                    }
                    // which version does the device boot into?
                    let weights = w.profile.reboot_version;
                    let tv = system_target_version(&w.hist, &setup);
                    match (w.draws.weighted(&format!("L{life}/reboot.version"), &weights), tv) {
                        (0, Some(v)) => setup.os_version = v,
                        (0, None) => {}
                        _ => setup.os_version = format!("{}.x", setup.os_version),
                    }
                }
                _ => break,
            }
        }
        if lock(&world).profile.server == crate::profile::ServerKind::Mock {
            let (config, handler) = {
                let w = lock(&world);
                make_config(&setup, &w, &setup.os_version)
            };
            crate::mockserver::direct_mixed_exchange(&world, &setup.apps, &config, handler.as_ref());
        }
        // probe restarts: what would a machine rebuilt on each committed map present?
        if lock(&world).profile.probes {
            let (hist, server) = {
                let mut w = lock(&world);
                (std::mem::take(&mut w.hist), w.server.clone())
            };
            let mut out = Vec::with_capacity(hist.len() + 16);
            let mut cache: BTreeMap<(u32, String), Option<(Vec<AppRec>, SchedRec, ProtoRec)>> = BTreeMap::new();
            for r in hist.into_iter() {
                let probe_here = if let Kind::DiskCommitted { map } = &r.kind { Some(map.clone()) } else { None };
                let (seq, life, vt, wall) = (r.seq, r.life, r.vt, r.wall);
                out.push(r);
                if let Some(map) = probe_here {
                    let key = (life, serde_json::to_string(&map).unwrap_or_default());
                    let res = match cache.get(&key) {
                        Some(x) => x.clone(),
                        None => {
                            let st = &life_setups[(life as usize).min(life_setups.len() - 1)];
                            let x = probe(&map, st, &server, vt, wall - vt as i128, 0);
                            cache.insert(key, x.clone());
                            x
                        }
                    };
                    if let Some((apps, sched, proto)) = res {
                        out.push(Rec { seq, life, vt, wall, kind: Kind::Probe { at: format!("commit@{seq}"), apps, sched, proto } });
                    } else {
                        out.push(Rec { seq, life, vt, wall, kind: Kind::Note("probe: machine did not start".into()) });
                    }
                }
            }
            lock(&world).hist = out;
        }
        setup_out = Some(setup);
    }));
    install_hooks(None);
    let panic = match result {
        Ok(()) => None,
        Err(_) => crate::take_last_panic(),
    };
    let (hist, decisions, stats, vt_end) = {
        let mut w = lock(&world);
        (std::mem::take(&mut w.hist), std::mem::take(&mut w.draws.log), w.stats.clone(), w.vt)
    };
    (RunOut { hist, decisions, stats, panic, steps, vt_end }, world, setup_out)
}
