//! The real mock_omaha_server::handle_request, called in-process (C17).
use crate::world::*;
use serde_json::Value;

#[allow(clippy::type_complexity)]
pub fn handle(
    _w: &mut World,
    _id: u64,
    _label: &str,
    _req: &SentReq,
) -> Option<(u16, Vec<(String, Vec<u8>)>, Vec<u8>, Option<Value>)> {
    None
}
