//! C17: the real mock_omaha_server::handle_request, called in-process through the transport
//! seam (absolute-form URI converted to origin-form, as an HTTP client would).

use crate::hist::*;
use crate::refserver::{keys, parse_cup2key, cup2key_of};
use crate::world::*;
use mock_omaha_server::{OmahaResponse, OmahaServerBuilder, PrivateKeyAndId, PrivateKeys, ResponseAndMetadata, UpdateCheckAssertion};
use omaha_client::cup_ecdsa::{Cupv2RequestHandler, Nonce, PublicKeyAndId, PublicKeys, RequestMetadata, StandardCupv2Handler};
use serde_json::{json, Value};
use std::collections::HashMap;
use std::sync::Arc;

pub const KINDS: [&str; 5] = ["NoUpdate", "Update", "UrgentUpdate", "InvalidResponse", "InvalidURL"];

fn kind_of(s: &str) -> OmahaResponse {
    match s {
        "NoUpdate" => OmahaResponse::NoUpdate,
        "Update" => OmahaResponse::Update,
        "UrgentUpdate" => OmahaResponse::UrgentUpdate,
        "InvalidResponse" => OmahaResponse::InvalidResponse,
        _ => OmahaResponse::InvalidURL,
    }
}

/// Configure the in-process mock for this run's apps and key set.
pub fn setup(w: &mut World, app_ids: &[String], app_versions: &[String], cup: bool, disable_updates: bool) {
    let mut map: HashMap<String, ResponseAndMetadata> = HashMap::new();
    w.server.mock_cfg.clear();
    let weights = [40u32, 30, 10, 10, 10];
    for (i, id) in app_ids.iter().enumerate() {
        let k = KINDS[w.draws.weighted(&format!("setup/mock/app#{i}/kind"), &weights)];
        let version = if w.draws.draw(&format!("setup/mock/app#{i}/version_check"), 2) == 1 { Some(app_versions[i].clone()) } else { None };
        map.insert(
            id.clone(),
            ResponseAndMetadata {
                response: kind_of(k),
                check_assertion: if disable_updates { UpdateCheckAssertion::UpdatesDisabled } else { UpdateCheckAssertion::UpdatesEnabled },
                version,
                cohort_assertion: None,
                codebase: format!("fuchsia-pkg://mock.example.test/{i}/"),
                package_name: format!("update{i}?hash=ab"),
            },
        );
        w.server.mock_cfg.insert(id.clone(), k.to_string());
        w.server.mock_versions.insert(id.clone(), app_versions[i].clone());
    }
    let sk = &w.server.server_keys;
    let pk = PrivateKeys {
        latest: PrivateKeyAndId { id: sk[0].0, key: keys()[sk[0].1].clone() },
        historical: sk[1..].iter().map(|(id, k)| PrivateKeyAndId { id: *id, key: keys()[*k].clone() }).collect(),
    };
    let forced = if w.draws.draw("setup/mock/etag_override", 12) == 11 {
        w.stat("config.mock_forced_etag");
        Some("forced-etag-value".to_string())
    } else {
        None
    };
    w.server.mock_forced_etag = forced.is_some();
    // require_cup makes the mock panic by design when it cannot sign: only meaningful when it
    // holds the key the client uses
    let holds = w.server.server_keys.iter().any(|(id, _)| *id == w.server.client_latest.0);
    let require_cup = cup && holds && w.draws.draw("setup/mock/require_cup", 2) == 1;
    let server = OmahaServerBuilder::default()
        .responses_by_appid(map)
        .private_keys(pk)
        .etag_override(forced)
        .require_cup(require_cup)
        .build()
        .expect("mock server");
    w.server.mock = Some(Arc::new(tokio::sync::Mutex::new(server)));
}

fn origin_form(uri: &str) -> String {
    // scheme://authority[/path][?query] -> /path?query
    let rest = uri.split_once("://").map(|x| x.1).unwrap_or(uri);
    match rest.find(|c| c == '/' || c == '?') {
        Some(i) => {
            let pq = &rest[i..];
            if pq.starts_with('?') {
                format!("/{pq}")
            } else {
                pq.to_string()
            }
        }
        None => "/".to_string(),
    }
}

fn call_mock(
    server: &Arc<tokio::sync::Mutex<mock_omaha_server::OmahaServer>>,
    path: &str,
    body: Vec<u8>,
) -> Result<(u16, Vec<(String, Vec<u8>)>, Vec<u8>), String> {
    let req = hyper::Request::builder().method("POST").uri(path).body(hyper::Body::from(body)).map_err(|e| e.to_string())?;
    let server = server.clone();
    let r = std::panic::catch_unwind(std::panic::AssertUnwindSafe(|| {
        let _g = SutGuard::enter();
        futures::executor::block_on(async move {
            let resp = mock_omaha_server::handle_request(req, &server).await.map_err(|e| e.to_string())?;
            let (parts, body) = resp.into_parts();
            let bytes = hyper::body::to_bytes(body).await.map_err(|e| e.to_string())?.to_vec();
            let headers: Vec<(String, Vec<u8>)> = parts.headers.iter().map(|(k, v)| (k.as_str().to_string(), v.as_bytes().to_vec())).collect();
            Ok::<_, String>((parts.status.as_u16(), headers, bytes))
        })
    }));
    match r {
        Ok(x) => x,
        Err(_) => {
            let pi = crate::take_last_panic();
            Err(format!("PANIC {}", pi.map(|p| format!("{} at {}", p.msg, p.location)).unwrap_or_default()))
        }
    }
}

/// The same call with the request body arriving in several pieces (a body larger than the
/// transport's read buffer, or a slow uploader): the answer must not depend on how the body
/// was cut.
fn call_mock_chunked(
    server: &Arc<tokio::sync::Mutex<mock_omaha_server::OmahaServer>>,
    path: &str,
    body: Vec<u8>,
    pieces: usize,
) -> Result<(u16, Vec<(String, Vec<u8>)>, Vec<u8>), String> {
    use std::future::Future;
    use std::task::{Context, Poll};
    let server = server.clone();
    let path = path.to_string();
    let r = std::panic::catch_unwind(std::panic::AssertUnwindSafe(move || {
        let _g = SutGuard::enter();
        let waker = futures::task::noop_waker();
        let mut cx = Context::from_waker(&waker);
        let (tx, rbody) = hyper::Body::channel();
        let mut tx = Some(tx);
        let req = hyper::Request::builder().method("POST").uri(path.as_str()).body(rbody).map_err(|e| e.to_string())?;
        let n = pieces.max(1);
        let size = body.len().div_ceil(n).max(1);
        let mut chunks: std::collections::VecDeque<Vec<u8>> = body.chunks(size).map(|c| c.to_vec()).collect();
        let mut fut = Box::pin(async move {
            let resp = mock_omaha_server::handle_request(req, &server).await.map_err(|e| e.to_string())?;
            let (parts, body) = resp.into_parts();
            let bytes = hyper::body::to_bytes(body).await.map_err(|e| e.to_string())?.to_vec();
            let headers: Vec<(String, Vec<u8>)> = parts.headers.iter().map(|(k, v)| (k.as_str().to_string(), v.as_bytes().to_vec())).collect();
            Ok::<_, String>((parts.status.as_u16(), headers, bytes))
        });
        for _ in 0..256 {
            if let Some(t) = tx.as_mut() {
                if let Some(c) = chunks.pop_front() {
                    if t.try_send_data(c.clone().into()).is_err() {
                        chunks.push_front(c);
                    }
                }
                if chunks.is_empty() {
                    tx = None; // end of body
                }
            }
            if let Poll::Ready(x) = fut.as_mut().poll(&mut cx) {
                return x;
            }
        }
        Err("no answer to a request whose body arrived in pieces (256 polls)".to_string())
    }));
    match r {
        Ok(x) => x,
        Err(_) => {
            let pi = crate::take_last_panic();
            Err(format!("PANIC {}", pi.map(|p| format!("{} at {}", p.msg, p.location)).unwrap_or_default()))
        }
    }
}

/// The same call while another connection to the server is stalled: connection A has sent its
/// request head and the first `split` bytes of its body and then nothing; the client's request
/// (connection B) must still be answered; afterwards A's body completes and A must be answered
/// too.  Every future is polled by hand with a no-op waker, a bounded number of times: the
/// server's own lock is the only thing B can wait for.
fn call_mock_beside_stalled_connection(
    server: &Arc<tokio::sync::Mutex<mock_omaha_server::OmahaServer>>,
    path: &str,
    body: Vec<u8>,
    split: usize,
) -> Result<(u16, Vec<(String, Vec<u8>)>, Vec<u8>), String> {
    use std::future::Future;
    use std::task::{Context, Poll};
    let split = split.min(body.len());
    let (first, rest) = (body[..split].to_vec(), body[split..].to_vec());
    let server = server.clone();
    let path = path.to_string();
    let r = std::panic::catch_unwind(std::panic::AssertUnwindSafe(move || {
        let _g = SutGuard::enter();
        let waker = futures::task::noop_waker();
        let mut cx = Context::from_waker(&waker);
        let (mut tx, abody) = hyper::Body::channel();
        let req_a = hyper::Request::builder().method("POST").uri(path.as_str()).body(abody).map_err(|e| e.to_string())?;
        if !first.is_empty() {
            tx.try_send_data(first.into()).map_err(|_| "harness: could not queue the first part of the stalled body".to_string())?;
        }
        let sa = server.clone();
        let mut fa = Box::pin(async move { mock_omaha_server::handle_request(req_a, &sa).await.map(|r| r.status().as_u16()).map_err(|e| e.to_string()) });
        let mut ra = None;
        for _ in 0..4 {
            if let Poll::Ready(x) = fa.as_mut().poll(&mut cx) {
                ra = Some(x);
                break;
            }
        }
        let req_b = hyper::Request::builder().method("POST").uri(path.as_str()).body(hyper::Body::from(body)).map_err(|e| e.to_string())?;
        let sb = server.clone();
        let mut fb = Box::pin(async move {
            let resp = mock_omaha_server::handle_request(req_b, &sb).await.map_err(|e| e.to_string())?;
            let (parts, body) = resp.into_parts();
            let bytes = hyper::body::to_bytes(body).await.map_err(|e| e.to_string())?.to_vec();
            let headers: Vec<(String, Vec<u8>)> = parts.headers.iter().map(|(k, v)| (k.as_str().to_string(), v.as_bytes().to_vec())).collect();
            Ok::<_, String>((parts.status.as_u16(), headers, bytes))
        });
        let mut rb = None;
        for _ in 0..64 {
            if let Poll::Ready(x) = fb.as_mut().poll(&mut cx) {
                rb = Some(x);
                break;
            }
        }
        let blocked = rb.is_none() && ra.is_none();
        // connection A gets going again
        let mut rest = Some(rest);
        for _ in 0..64 {
            if let Some(chunk) = rest.take() {
                if chunk.is_empty() {
                    // nothing left to send
                } else if let Err(back) = tx.try_send_data(chunk.clone().into()) {
                    let _ = back;
                    rest = Some(chunk);
                }
                if rest.is_none() {
                    // end of body
                    let (t2, _unused) = hyper::Body::channel();
                    drop(std::mem::replace(&mut tx, t2));
                }
            }
            if ra.is_none() {
                if let Poll::Ready(x) = fa.as_mut().poll(&mut cx) {
                    ra = Some(x);
                }
            }
            if ra.is_some() && rest.is_none() {
                break;
            }
        }
        if rb.is_none() {
            for _ in 0..64 {
                if let Poll::Ready(x) = fb.as_mut().poll(&mut cx) {
                    rb = Some(x);
                    break;
                }
            }
        }
        if blocked {
            return Err("no answer while another connection was stalled in the middle of its request body (64 polls); it was answered only after that connection went on".to_string());
        }
        match ra {
            Some(Ok(200)) => {}
            Some(Ok(st)) => return Err(format!("the connection that had been stalled was answered with status {st}")),
            Some(Err(e)) => return Err(format!("the connection that had been stalled failed: {e}")),
            None => return Err("the connection that had been stalled was never answered after its body completed".to_string()),
        }
        rb.unwrap_or_else(|| Err("no answer (64 polls)".to_string()))
    }));
    match r {
        Ok(x) => x,
        Err(_) => {
            let pi = crate::take_last_panic();
            Err(format!("PANIC {}", pi.map(|p| format!("{} at {}", p.msg, p.location)).unwrap_or_default()))
        }
    }
}

/// An admin client reconfigures the responses (POST /set_responses_by_appid).
pub fn reconfigure(w: &mut World, n: u32) {
    let server = match &w.server.mock {
        Some(s) => s.clone(),
        None => return,
    };
    let ids: Vec<String> = w.server.mock_cfg.keys().cloned().collect();
    let mut cfg = serde_json::Map::new();
    let mut newcfg = std::collections::BTreeMap::new();
    let dis = w.server.mock_disable_updates;
    for (i, id) in ids.iter().enumerate() {
        let k = KINDS[w.draws.weighted(&format!("admin#{n}/app#{i}/kind"), &[30, 40, 10, 10, 10])];
        let mut entry = serde_json::Map::new();
        entry.insert("response".into(), json!(k));
        entry.insert("check_assertion".into(), json!(if dis { "UpdatesDisabled" } else { "UpdatesEnabled" }));
        entry.insert("codebase".into(), json!(format!("fuchsia-pkg://mock.example.test/r{n}/{i}/")));
        entry.insert("package_name".into(), json!(format!("update{i}?hash=cd")));
        // optional members: omitted, null, or set (version: the app's real version)
        match w.draws.draw(&format!("admin#{n}/app#{i}/version_member"), 3) {
            0 => {}
            1 => {
                entry.insert("version".into(), Value::Null);
            }
            _ => {
                if let Some(v) = w.server.mock_versions.get(id) {
                    entry.insert("version".into(), json!(v));
                }
            }
        }
        if w.draws.draw(&format!("admin#{n}/app#{i}/cohort_member"), 2) == 1 {
            entry.insert("cohort_assertion".into(), Value::Null);
        }
        cfg.insert(id.clone(), Value::Object(entry));
        newcfg.insert(id.clone(), k.to_string());
    }
    let body = serde_json::to_vec(&Value::Object(cfg)).unwrap();
    match call_mock(&server, "/set_responses_by_appid", body) {
        Ok((200, _, _)) => {
            w.server.mock_cfg = newcfg;
            w.server.mock_cfg_epoch += 1;
            w.stat("admin.reconfigured");
            let cfgs = format!("{:?}", w.server.mock_cfg);
            w.rec(Kind::Note(format!("mock reconfigured #{n}: {cfgs}")));
        }
        other => {
            let what = format!("reconfiguration #{n} failed: {:?}", other.map(|x| x.0));
            w.rec(Kind::MockFailure { id: u64::MAX, what });
        }
    }
}

#[allow(clippy::type_complexity)]
pub fn handle(w: &mut World, id: u64, _label: &str, req: &SentReq) -> Option<(u16, Vec<(String, Vec<u8>)>, Vec<u8>, Option<Value>)> {
    let server = w.server.mock.clone()?;
    let path = origin_form(&req.uri);
    let cfg_now = w.server.mock_cfg.clone();
    w.rec(Kind::ServerHandled { id, server: format!("mock:{:?}", cfg_now) });
    // another client's connection may be stalled mid-body at this moment
    let stalled = w.draws.chance(&format!("{_label}/stalled_neighbour"), 120);
    let answer = if stalled {
        w.stat("mock.request_beside_a_stalled_connection");
        let split = w.draws.draw(&format!("{_label}/stalled_neighbour.split"), 4) as usize * req.body.len() / 4;
        call_mock_beside_stalled_connection(&server, &path, req.body.clone(), split)
    } else {
        let pieces = [1usize, 1, 2, 3, 7][w.draws.draw(&format!("{_label}/body_pieces"), 5) as usize];
        if pieces > 1 {
            w.stat("mock.request_body_in_pieces");
            call_mock_chunked(&server, &path, req.body.clone(), pieces)
        } else {
            call_mock(&server, &path, req.body.clone())
        }
    };
    match answer {
        Ok((status, headers, body)) => {
            let doc: Option<Value> = serde_json::from_slice(&body).ok();
            // does the client's parser accept the body?
            let parses = {
                let _g = SutGuard::enter();
                omaha_client::protocol::response::parse_json_response(&body).is_ok()
            };
            // does the client's verifier accept the ETag for this exchange, and for another one?
            let mut own: Option<bool> = None;
            let mut other: Option<bool> = None;
            if let Some((kid, nonce_hex)) = cup2key_of(&req.uri).as_deref().and_then(parse_cup2key) {
                if let Ok(nb) = hex::decode(&nonce_hex) {
                    if nb.len() == 32 {
                        let mut arr = [0u8; 32];
                        arr.copy_from_slice(&nb);
                        let ks = keys();
                        let pk = PublicKeys {
                            latest: PublicKeyAndId { id: w.server.client_latest.0, key: ks[w.server.client_latest.1].verifying_key() },
                            historical: w.server.client_historical.iter().map(|(i, k)| PublicKeyAndId { id: *i, key: ks[*k].verifying_key() }).collect(),
                        };
                        let handler = StandardCupv2Handler::new(&pk);
                        let mut b = http::Response::builder().status(status);
                        for (k, v) in &headers {
                            if let Ok(hv) = http::HeaderValue::from_bytes(v) {
                                b = b.header(k.as_str(), hv);
                            }
                        }
                        let resp = b.body(body.clone()).unwrap();
                        let meta = RequestMetadata { request_body: req.body.clone(), public_key_id: kid, nonce: Nonce::from(arr) };
                        own = Some({
                            let _g = SutGuard::enter();
                            handler.verify_response(&meta, &resp, kid).is_ok()
                        });
                        if let Some((pbody, pkid, pnonce)) = w.server.prev_exchange.clone() {
                            let pmeta = RequestMetadata { request_body: pbody, public_key_id: pkid, nonce: Nonce::from(pnonce) };
                            other = Some({
                                let _g = SutGuard::enter();
                                handler.verify_response(&pmeta, &resp, pkid).is_ok()
                            });
                        }
                        w.server.prev_exchange = Some((req.body.clone(), kid, arr));
                    }
                }
            }
            let forced_etag = w.server.mock_forced_etag;
            w.rec(Kind::MockAnswer { id, parses, own, other, cfg: cfg_now, forced_etag });
            Some((status, headers, body, doc))
        }
        Err(e) => {
            w.stat("mock.crashed");
            w.rec(Kind::MockFailure { id, what: format!("{:?} request to {}: {e}", req.kind, path) });
            None
        }
    }
}

/// The client library, used directly (not through the state machine), builds a request in
/// which some apps carry an update check and an event at once, and sends it to the mock.
/// The world lock is never held while library code runs (nonce / GUID generation re-enters
/// the simulator through the entropy seam).
pub fn direct_mixed_exchange(
    world: &Shared,
    apps: &[omaha_client::common::App],
    config: &omaha_client::configuration::Config,
    handler: Option<&StandardCupv2Handler>,
) {
    use omaha_client::protocol::request::{Event, EventType, InstallSource, GUID};
    use omaha_client::request_builder::{RequestBuilder, RequestParams};
    let (server, params, events, cfg) = {
        let mut w = lock(world);
        let server = match &w.server.mock {
            Some(s) => s.clone(),
            None => return,
        };
        // the mock asserts one update check per configured app: distinct ids only
        let mut ids = std::collections::BTreeSet::new();
        if !apps.iter().all(|a| ids.insert(a.id.clone())) || apps.iter().any(|a| !w.server.mock_cfg.contains_key(&a.id)) {
            return;
        }
        let params = RequestParams {
            source: InstallSource::ScheduledTask,
            use_configured_proxies: true,
            disable_updates: w.server.mock_disable_updates,
            offer_update_if_same_version: false,
        };
        let events: Vec<bool> = (0..apps.len()).map(|i| w.draws.draw(&format!("direct/app#{i}/event"), 2) == 1).collect();
        (server, params, events, w.server.mock_cfg.clone())
    };
    if !events.iter().any(|e| *e) {
        return;
    }
    let mut listed = vec![];
    let built = {
        let _g = SutGuard::enter();
        let mut rb = RequestBuilder::new(config, &params);
        for (a, ev) in apps.iter().zip(events.iter()) {
            rb = rb.add_update_check(a);
            if *ev {
                rb = rb.add_event(a, Event::success(EventType::UpdateDownloadStarted));
            }
            listed.push((a.id.clone(), *ev));
        }
        rb.session_id(GUID::new()).request_id(GUID::new()).build(handler)
    };
    let (req, _meta) = match built {
        Ok(x) => x,
        Err(_) => return,
    };
    let uri = req.uri().to_string();
    let body = futures::executor::block_on(hyper::body::to_bytes(req.into_body())).map(|b| b.to_vec()).unwrap_or_default();
    let result = call_mock(&server, &origin_form(&uri), body);
    lock(world).stat("client.direct_mixed_request");
    match result {
        Ok((_status, _headers, rbody)) => {
            let doc: Option<Value> = serde_json::from_slice(&rbody).ok();
            let parses = {
                let _g = SutGuard::enter();
                omaha_client::protocol::response::parse_json_response(&rbody).is_ok()
            };
            lock(world).rec(Kind::MockDirect { apps: listed, doc, parses, cfg, failure: None });
        }
        Err(e) => {
            lock(world).rec(Kind::MockDirect { apps: listed, doc: None, parses: false, cfg, failure: Some(e) });
        }
    }
    direct_event_report_under_cohort_assertion(world, apps, config, handler, &server, &params);
}

/// The mock's cohort assertion is documented for update checks.  An event-only report from an app
/// that has meanwhile been moved to another cohort (the cohort the mock itself assigns) must be
/// answered like any other event report.  The assertion is set for this one exchange and cleared
/// again (an admin action), so that the state machine's own update checks are not affected.
fn direct_event_report_under_cohort_assertion(
    world: &Shared,
    apps: &[omaha_client::common::App],
    config: &omaha_client::configuration::Config,
    handler: Option<&StandardCupv2Handler>,
    server: &Arc<tokio::sync::Mutex<mock_omaha_server::OmahaServer>>,
    params: &omaha_client::request_builder::RequestParams,
) {
    use omaha_client::protocol::request::{Event, EventType, GUID};
    use omaha_client::request_builder::RequestBuilder;
    if lock(world).draws.draw("direct/cohort_assertion", 3) != 0 {
        return;
    }
    let cfg = lock(world).server.mock_cfg.clone();
    match server.try_lock() {
        Ok(mut s) => s.set_all_cohort_assertions(Some("asserted-cohort".to_string())),
        Err(_) => return,
    }
    let mut listed = vec![];
    let built = {
        let _g = SutGuard::enter();
        let mut rb = RequestBuilder::new(config, params);
        for a in apps.iter() {
            let mut moved = a.clone();
            moved.cohort.id = Some("1:1:".to_string());
            rb = rb.add_event(&moved, Event::success(EventType::UpdateComplete));
            listed.push((a.id.clone(), true));
        }
        rb.session_id(GUID::new()).request_id(GUID::new()).build(handler)
    };
    let result = match built {
        Ok((req, _meta)) => {
            let uri = req.uri().to_string();
            let body = futures::executor::block_on(hyper::body::to_bytes(req.into_body())).map(|b| b.to_vec()).unwrap_or_default();
            Some(call_mock(server, &origin_form(&uri), body))
        }
        Err(_) => None,
    };
    if let Ok(mut s) = server.try_lock() {
        s.set_all_cohort_assertions(None);
    }
    let mut w = lock(world);
    w.stat("client.direct_event_report_under_cohort_assertion");
    match result {
        Some(Ok((_st, _h, rbody))) => {
            let doc: Option<Value> = serde_json::from_slice(&rbody).ok();
            drop(w);
            let parses = {
                let _g = SutGuard::enter();
                omaha_client::protocol::response::parse_json_response(&rbody).is_ok()
            };
            let answered: Vec<String> = doc
                .as_ref()
                .and_then(|d| d.get("response"))
                .and_then(|r| r.get("app"))
                .and_then(|a| a.as_array())
                .map(|a| a.iter().filter_map(|x| x.get("appid").and_then(|s| s.as_str()).map(|s| s.to_string())).collect())
                .unwrap_or_default();
            lock(world).rec(Kind::MockDirectEvent { apps: listed.iter().map(|l| l.0.clone()).collect(), answered_apps: answered, parses, failure: None });
        }
        Some(Err(e)) => w.rec(Kind::MockDirectEvent { apps: listed.iter().map(|l| l.0.clone()).collect(), answered_apps: vec![], parses: false, failure: Some(e) }),
        None => {}
    }
    let _ = cfg;
}
