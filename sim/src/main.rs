mod conv;
mod env;
mod exec;
mod hist;
mod mockserver;
mod profile;
mod refserver;
mod rng;
mod world;

use std::cell::RefCell;

thread_local! {
    static LAST_PANIC: RefCell<Option<exec::PanicInfo>> = const { RefCell::new(None) };
}

pub fn take_last_panic() -> Option<exec::PanicInfo> {
    LAST_PANIC.with(|p| p.borrow_mut().take())
}

fn install_panic_hook() {
    std::panic::set_hook(Box::new(|info| {
        let msg = if let Some(s) = info.payload().downcast_ref::<&str>() {
            s.to_string()
        } else if let Some(s) = info.payload().downcast_ref::<String>() {
            s.clone()
        } else {
            "<non-string panic>".to_string()
        };
        let location = info.location().map(|l| format!("{}:{}", l.file(), l.line())).unwrap_or_default();
        let in_sut = world::IN_SUT.with(|c| c.get());
        LAST_PANIC.with(|p| *p.borrow_mut() = Some(exec::PanicInfo { msg, location, in_sut }));
    }));
}

/// Run one simulated execution on a fresh OS thread (rand's thread_rng keeps thread-local
/// state, so a fresh thread re-seeds it from the run's entropy stream).
pub fn run_in_thread(p: &profile::Profile, cfg: &exec::RunCfg) -> exec::RunOut {
    let p = p.clone();
    let cfg = cfg.clone();
    std::thread::Builder::new()
        .stack_size(16 << 20)
        .spawn(move || exec::run_sm(&p, &cfg).0)
        .unwrap()
        .join()
        .expect("run thread")
}

fn main() {
    install_panic_hook();
    let args: Vec<String> = std::env::args().collect();
    let n: u64 = args.get(2).and_then(|s| s.parse().ok()).unwrap_or(3);
    let mut p = profile::Profile::base("smoke");
    p.net.transport = 50;
    p.net.status = 50;
    p.net.retry_after = 100;
    for seed in 0..n {
        let out = run_in_thread(&p, &exec::RunCfg { seed, ..Default::default() });
        println!("seed {seed}: steps={} recs={} vt={} panic={:?} hash={}", out.steps, out.hist.len(), out.vt_end, out.panic, hist::history_hash(&out.hist));
        if args.get(1).map(|s| s == "dump").unwrap_or(false) {
            for r in &out.hist {
                println!("  {}", serde_json::to_string(r).unwrap());
            }
        }
    }
}
