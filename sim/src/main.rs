mod builder;
mod check;
mod conv;
mod cup;
mod deep;
mod env;
mod exec;
mod gen;
mod hist;
mod mockserver;
mod mon;
mod monitors;
mod profile;
mod props;
mod refserver;
mod rng;
mod seg;
mod world;

use serde_json::{json, Value};
use std::cell::RefCell;
use std::collections::BTreeSet;
use std::sync::Mutex;
use std::time::{Duration, Instant};

thread_local! {
    static LAST_PANIC: RefCell<Option<exec::PanicInfo>> = const { RefCell::new(None) };
}

pub fn take_last_panic() -> Option<exec::PanicInfo> {
    LAST_PANIC.with(|p| p.borrow_mut().take())
}

fn install_panic_hook() {
    std::panic::set_hook(Box::new(|info| {
        let msg = if let Some(s) = info.payload().downcast_ref::<&str>() {
            s.to_string()
        } else if let Some(s) = info.payload().downcast_ref::<String>() {
            s.clone()
        } else {
            "<non-string panic>".to_string()
        };
        let location = info.location().map(|l| format!("{}:{}", l.file(), l.line())).unwrap_or_default();
        let in_sut = world::IN_SUT.with(|c| c.get());
        if !world::IS_RUN_THREAD.with(|c| c.get()) {
            eprintln!("HARNESS PANIC: {msg} at {location}");
        }
        LAST_PANIC.with(|p| *p.borrow_mut() = Some(exec::PanicInfo { msg, location, in_sut }));
    }));
}

/// A global tracing subscriber that formats every event and discards the text, so that the
/// Display/Debug code inside the library's log statements executes (any deployment logs).
fn init_logging() {
    use tracing_subscriber::fmt;
    let sub = fmt().with_max_level(tracing::Level::TRACE).with_writer(std::io::sink).with_ansi(false).finish();
    let _ = tracing::subscriber::set_global_default(sub);
}

fn verif_seed() -> u64 {
    std::env::var("VERIF_SEED").ok().and_then(|s| s.trim().parse::<u64>().ok()).unwrap_or(1)
}

fn workers() -> usize {
    std::env::var("VERIF_WORKERS").ok().and_then(|s| s.parse().ok()).unwrap_or(16)
}

/// root of the verification tree this binary belongs to (set by ./check; /verif by default)
fn verif_root() -> String {
    std::env::var("VERIF_ROOT").unwrap_or_else(|_| "/verif".to_string())
}

fn out_dir() -> String {
    std::env::var("VERIF_OUT").unwrap_or_else(|_| format!("{}/out", verif_root()))
}

fn cmd_check(id: &str, tier: &str) -> i32 {
    let t0 = Instant::now();
    let seed = verif_seed();
    let defs = props::all();
    let def = match defs.iter().find(|d| d.id == id) {
        Some(d) => d,
        None => {
            eprintln!("unknown property {id}");
            return 2;
        }
    };
    let batches = (def.batches)(tier);
    if batches.iter().any(|b| b.profile.logging) {
        init_logging();
    }
    let budget = if tier == "thorough" { 1500 } else { 100 };
    let deadline = t0 + Duration::from_secs(std::env::var("VERIF_BUDGET_S").ok().and_then(|s| s.parse().ok()).unwrap_or(budget));
    // watchdog: a run that never returns (deadlock in the harness or the code under test with
    // the scheduler stuck) must not hang the check
    let limit = deadline + Duration::from_secs(180);
    let wd_id = id.to_string();
    std::thread::spawn(move || loop {
        std::thread::sleep(Duration::from_secs(1));
        if Instant::now() > limit {
            println!("HARNESS-ERROR {wd_id}: watchdog expired (a run did not return)");
            std::process::exit(2);
        }
    });
    let agg = Mutex::new(check::Agg::default());
    for b in &batches {
        check::run_batch(seed, b, workers(), deadline, &agg);
    }
    let mut agg = agg.into_inner().unwrap();
    let known = check::load_known(&format!("{}/KNOWN_FINDINGS.txt", verif_root()));
    let mut exit = 0;
    let mut deep_violations = 0;
    if id == "C16" {
        // deeply nested documents are parsed in child processes (a stack overflow aborts)
        let n = if tier == "thorough" { 2160 } else { 216 };
        let o = deep::probe(seed, n);
        agg.runs += o.documents;
        agg.counters.insert("R4.deep_nesting_documents_parsed_in_child_processes".into(), o.documents);
        agg.counters.insert("R4.deep_nesting_documents_value".into(), o.values);
        agg.counters.insert("R4.deep_nesting_documents_error".into(), o.errors);
        for (k, (index, how)) in o.failures.iter().enumerate() {
            deep_violations += 1;
            if k >= 3 {
                continue;
            }
            let (depth, pos, shape, prefix) = deep::describe(seed, *index);
            let dir = format!("{}/replays", out_dir());
            let _ = std::fs::create_dir_all(&dir);
            let path = format!("{dir}/C16-C16_R4-deep-{seed}-{index}.json");
            let doc = json!({"property": "C16", "rule": "C16.R4", "site": "deep-nesting", "kind": "deep_parse", "seed": seed, "index": index,
                "detail": format!("the process parsing a document nested {depth} levels deep ({shape}) in an extension member of the {pos} object did not survive: {how}"),
                "document": {"depth": depth, "position": pos, "shape": shape, "xssi_prefix": prefix}});
            std::fs::write(&path, serde_json::to_string_pretty(&doc).unwrap()).expect("write replay");
            println!("VIOLATION property=C16 replay={path}");
            println!("  rule=C16.R4 site=deep-nesting detail={}", doc["detail"].as_str().unwrap());
            exit = 1;
        }
    }
    if !agg.harness_errors.is_empty() {
        for e in agg.harness_errors.iter().take(5) {
            eprintln!("HARNESS-ERROR {e}");
        }
        exit = 2;
    }
    // group violations: known findings vs new; minimise the first of each (rule) class
    let mut seen_rules: BTreeSet<String> = BTreeSet::new();
    let mut known_printed: BTreeSet<String> = BTreeSet::new();
    let mut n_viol = 0;
    let violations = std::mem::take(&mut agg.violations);
    for (bname, idx, v, _strata) in &violations {
        if let Some((p, _r, _s, text)) = known.matches(v) {
            let line = format!("KNOWN-FINDING: property={p} {text}");
            if known_printed.insert(line.clone()) {
                println!("{line}");
            }
            continue;
        }
        n_viol += 1;
        // one report per (rule, site class): positional sites (L<life>@<index>) fall into one class
        let positional = v.site.starts_with('L') && v.site[1..].chars().next().map(|c| c.is_ascii_digit()).unwrap_or(false);
        let class = if positional || v.site.starts_with("x#") || v.site.starts_with("behaviour#") { v.rule.clone() } else { format!("{}|{}", v.rule, v.site) };
        if !seen_rules.insert(class) || seen_rules.len() > 12 {
            continue;
        }
        let b = batches.iter().find(|b| &b.name == bname).unwrap();
        let cfg = check::make_cfg(seed, b, *idx);
        // a run that hangs is not re-run for shrinking (and once one was seen, nothing is: the
        // abandoned thread is still spinning in this process)
        let hang = check::HANG_SEEN.load(std::sync::atomic::Ordering::SeqCst);
        let shrunk = if hang { None } else { check::minimise(b, &cfg, &v.rule, &v.site, Duration::from_secs(45)) };
        let f = shrunk.unwrap_or(check::Failing {
            cfg: cfg.clone(),
            violation: v.clone(),
            decisions: vec![],
            hist_hash: String::new(),
        });
        let path = check::write_replay(&format!("{}/replays", out_dir()), id, seed, b, *idx, &f, tier, seen_rules.len());
        println!("VIOLATION property={} replay={}", id, path);
        println!("  rule={} site={} detail={}", f.violation.rule, f.violation.site, f.violation.detail);
        exit = exit.max(1);
    }
    let wall = t0.elapsed().as_secs_f64();
    let runs_per_hour = if wall > 0.0 { (agg.runs as f64 / wall * 3600.0) as u64 } else { 0 };
    let evidence = json!({
        "property_id": id,
        "tier": tier,
        "seed": seed,
        "level": def.level,
        "coverage": {
            "evaluations": agg.runs,
            "distinct_nontrivial": agg.sigs.len(),
            "rule": def.rule_text,
            "samples": agg.samples,
            "simulated_runs": agg.runs,
            "runs_per_hour": runs_per_hour,
            "simulated_time_s": (agg.sim_ns / 1_000_000_000) as u64,
            "scheduler_steps": agg.steps,
            "distinct_interleavings": agg.interleavings.len(),
            "interleaving_measure": "hash of the per-run sequence of observation kinds (scheduler decisions and environment outcomes)",
            "faults_fired": agg.stats,
            "rule_evaluations": agg.counters,
            "real_code": def.real_code,
            "stubbed": def.stub_code,
            "batches": batches.iter().map(|b| json!({"name": b.name, "runs_planned": b.runs})).collect::<Vec<Value>>(),
            "determinism": "see /verif/evidence/determinism.json (written by ./check determinism)",
        },
        "assumptions": def.assumptions,
        "wall_s": wall,
        "violations": n_viol + deep_violations,
    });
    let edir = std::env::var("VERIF_EVIDENCE_DIR").unwrap_or_else(|_| format!("{}/evidence", verif_root()));
    let _ = std::fs::create_dir_all(&edir);
    std::fs::write(format!("{edir}/{id}.json"), serde_json::to_string_pretty(&evidence).unwrap()).expect("write evidence");
    eprintln!(
        "{id} {tier}: runs={} distinct={} interleavings={} violations={} wall={:.1}s",
        agg.runs,
        agg.sigs.len(),
        agg.interleavings.len(),
        n_viol + deep_violations,
        wall
    );
    for (k, v) in &agg.counters {
        eprintln!("   {k}: {v}");
    }
    exit
}

fn cmd_replay(path: &str) -> i32 {
    let s = match std::fs::read_to_string(path) {
        Ok(s) => s,
        Err(e) => {
            eprintln!("cannot read {path}: {e}");
            return 2;
        }
    };
    let doc: Value = serde_json::from_str(&s).expect("replay json");
    if doc["kind"].as_str() == Some("deep_parse") {
        let (seed, index) = (doc["seed"].as_u64().unwrap(), doc["index"].as_u64().unwrap());
        let o = deep::probe_one(seed, index);
        return match o {
            Err(how) => {
                println!("REPRODUCED rule=C16.R4 site=deep-nesting detail={how}");
                1
            }
            Ok(_) => {
                println!("NOT REPRODUCED: the child process parsing document {index} ended normally");
                0
            }
        };
    }
    let id = doc["property"].as_str().unwrap();
    let tier = doc["tier"].as_str().unwrap_or("quick");
    let defs = props::all();
    let def = defs.iter().find(|d| d.id == id).expect("property");
    let batches = (def.batches)(tier);
    let bname = doc["batch"].as_str().unwrap();
    let b = batches.iter().find(|b| b.name == bname).expect("batch");
    let profile: profile::Profile = serde_json::from_value(doc["profile"].clone()).expect("profile");
    if profile.logging {
        init_logging();
    }
    let mut cfg = exec::RunCfg { seed: doc["run_seed"].as_u64().unwrap(), ..Default::default() };
    cfg.default_zero = doc["default_zero"].as_bool().unwrap_or(false);
    cfg.entropy_seed = doc["entropy_seed"].as_u64();
    for (k, v) in doc["overrides"].as_object().unwrap() {
        cfg.overrides.insert(k.clone(), v.as_u64().unwrap());
    }
    let rule = doc["rule"].as_str().unwrap();
    let (out, mon) = match check::exec_in_thread(b.exec, &profile, &cfg) {
        Ok(x) => x,
        Err(e) if e.starts_with("TIMEOUT-SUT") && doc["site"].as_str() == Some("hang") => {
            println!("REPRODUCED rule={rule} site=hang detail={e}");
            std::process::exit(1);
        }
        Err(e) => {
            eprintln!("HARNESS-ERROR replay: {e}");
            return 2;
        }
    };
    let hash = hist::history_hash(&out.hist);
    let same_hash = Some(hash.as_str()) == doc["history_sha256"].as_str();
    match mon.violations.iter().find(|v| v.rule == rule) {
        Some(v) => {
            println!("REPRODUCED rule={} site={} detail={}", v.rule, v.site, v.detail);
            println!("history_sha256={} ({})", hash, if same_hash { "identical to the recorded run" } else { "DIFFERS from the recorded run" });
            if std::env::var("VERIF_DUMP").is_ok() {
                for r in &out.hist {
                    println!("  {}", serde_json::to_string(r).unwrap());
                }
            }
            if same_hash {
                1
            } else {
                2
            }
        }
        None => {
            println!("NOT REPRODUCED: rule {rule} did not fail (violations: {:?})", mon.violations.iter().map(|v| &v.rule).collect::<Vec<_>>());
            0
        }
    }
}

fn cmd_determinism(n: u64) -> i32 {
    // run every batch's first n indices on the worker pool; print one line per run, sorted:
    // two invocations (any worker count, any process) must print identical text
    let seed = verif_seed();
    let lines = Mutex::new(Vec::<String>::new());
    for def in props::all() {
        for b in (def.batches)("quick") {
            let next = std::sync::atomic::AtomicU64::new(0);
            std::thread::scope(|s| {
                for _ in 0..workers() {
                    s.spawn(|| loop {
                        let idx = next.fetch_add(1, std::sync::atomic::Ordering::SeqCst);
                        if idx >= n.min(b.runs) {
                            break;
                        }
                        let cfg = check::make_cfg(seed, &b, idx);
                        let line = match check::exec_in_thread(b.exec, &b.profile, &cfg) {
                            Ok((out, mon)) => format!("{} {:06} {} v={} d={}", b.name, idx, hist::history_hash(&out.hist), mon.violations.len(), out.decisions.len()),
                            Err(e) => format!("{} {:06} ERROR {e}", b.name, idx),
                        };
                        lines.lock().unwrap().push(line);
                    });
                }
            });
        }
    }
    let mut l = lines.into_inner().unwrap();
    l.sort();
    for x in l {
        println!("{x}");
    }
    0
}

fn cmd_dump(id: &str, bname: &str, idx: u64) -> i32 {
    let seed = verif_seed();
    for def in props::all() {
        if def.id != id {
            continue;
        }
        for b in (def.batches)("quick") {
            if b.name != bname {
                continue;
            }
            let cfg = check::make_cfg(seed, &b, idx);
            let (out, mon) = check::exec_in_thread(b.exec, &b.profile, &cfg).expect("run");
            for r in &out.hist {
                println!("{}", serde_json::to_string(r).unwrap());
            }
            for v in &mon.violations {
                println!("VIOL {} {} {}", v.rule, v.site, v.detail);
            }
            println!("panic={:?}", out.panic);
        }
    }
    0
}

fn main() {
    install_panic_hook();
    let args: Vec<String> = std::env::args().collect();
    let code = match args.get(1).map(|s| s.as_str()) {
        Some("check") => cmd_check(&args[2], args.get(3).map(|s| s.as_str()).unwrap_or("quick")),
        Some("replay") => cmd_replay(&args[2]),
        Some("determinism") => cmd_determinism(args.get(2).and_then(|s| s.parse().ok()).unwrap_or(50)),
        Some("dump") => cmd_dump(&args[2], &args[3], args[4].parse().unwrap()),
        Some("deep-parse") => deep::cmd_deep_parse(args[2].parse().unwrap(), args[3].parse().unwrap(), args[4].parse().unwrap()),
        _ => {
            eprintln!("usage: sim check <Cxx> quick|thorough | replay <file> | determinism <n> | dump <Cxx> <batch> <idx>");
            2
        }
    };
    std::process::exit(code);
}
