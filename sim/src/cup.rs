//! C01 — two-party CUP exchange simulation: the real RequestBuilder + StandardCupv2Handler on
//! one side, the independent signer on the other, an in-flight adversary in between, and the
//! independent reference verifier as oracle.

use crate::exec::{install_hooks, RunCfg, RunOut};
use crate::hist::*;
use crate::mon::MonOut;
use crate::profile::Profile;
use crate::refserver::*;
use crate::rng::Draws;
use crate::world::*;
use omaha_client::common::App;
use omaha_client::configuration::{Config, Updater};
use omaha_client::cup_ecdsa::{
    Cupv2RequestHandler, Cupv2Verifier, Nonce, PublicKeyAndId, PublicKeys, RequestMetadata, StandardCupv2Handler,
};
use omaha_client::protocol::request::OS;
use omaha_client::request_builder::{RequestBuilder, RequestParams};
use p256::ecdsa::signature::Signer;
use p256::ecdsa::Signature;
use sha2::{Digest, Sha256};
use std::sync::{Arc, Mutex};

struct Exch {
    meta: RequestMetadata,
    resp_body: Vec<u8>,
    etag: Option<Vec<u8>>,
    key_id: u64,
}

fn resp_body(d: &mut Draws, key: &str) -> Vec<u8> {
    match d.draw(&format!("{key}/resp.kind"), 6) {
        0 => br#"{"response":{"protocol":"3.0","app":[{"appid":"a","status":"ok","updatecheck":{"status":"noupdate"}}]}}"#.to_vec(),
        1 => vec![],
        2 => (0..(1 + d.draw(&format!("{key}/resp.len"), 300) as usize)).map(|i| (d.raw(&format!("{key}/r{i}")) & 0xff) as u8).collect(),
        3 => vec![0xff, 0xfe, 0x00, 0x80],
        4 => vec![b'x'; 20_000],
        _ => b")]}'\n{}".to_vec(),
    }
}

fn flip_hex(v: &mut [u8], pos: usize) {
    // change one hex digit to another hex digit (stays hex, value differs)
    v[pos] = match v[pos] {
        b'0' => b'1',
        b'a' | b'A' => b'b',
        b'f' | b'F' => b'e',
        c if c.is_ascii_hexdigit() => {
            if c == b'9' {
                b'8'
            } else {
                c + 1
            }
        }
        _ => b'0',
    };
}

pub fn run_cup(p: &Profile, cfg: &RunCfg) -> (RunOut, MonOut) {
    let mut draws = Draws::new(cfg.seed);
    draws.overrides = cfg.overrides.clone();
    draws.default_zero = cfg.default_zero;
    let world: Shared = Arc::new(Mutex::new(World::new(p.clone(), draws)));
    install_hooks(Some(world.clone()));
    let mut mon = MonOut::default();
    let result = std::panic::catch_unwind(std::panic::AssertUnwindSafe(|| {
        let pr = "C01";
        // ---- key configuration
        let (registry_cfg, pk, server_keys, attacker) = {
            let mut w = lock(&world);
            let nk = N_KEYS;
            let latest_key = w.draws.draw("setup/key.latest", (nk - 1) as u64) as usize;
            let latest_id = KEY_IDS[w.draws.draw("setup/key.latest_id", KEY_IDS.len() as u64) as usize];
            let nhist = w.draws.draw("setup/key.nhist", 5) as usize;
            let mut hist = vec![];
            for h in 0..nhist {
                // ids on either side of the latest id, in no particular order
                let below = w.draws.draw(&format!("setup/key.hist#{h}/below"), 2) == 1;
                let id = if below { latest_id.wrapping_sub(1000 + h as u64) } else { latest_id.wrapping_add(1000 + h as u64) };
                hist.push((id, (latest_key + 1 + h) % (nk - 1)));
            }
            let mut reg = vec![(latest_id, keys()[latest_key].verifying_key())];
            for (id, k) in &hist {
                reg.push((*id, keys()[*k].verifying_key()));
            }
            let pk = PublicKeys {
                latest: PublicKeyAndId { id: latest_id, key: keys()[latest_key].verifying_key() },
                historical: hist.iter().map(|(id, k)| PublicKeyAndId { id: *id, key: keys()[*k].verifying_key() }).collect(),
            };
            // server: knows all client ids with the right keys
            let mut sk = vec![(latest_id, latest_key)];
            sk.extend(hist.iter().cloned());
            (reg, pk, sk, nk - 1)
        };
        let handler = StandardCupv2Handler::new(&pk);
        let config = Config {
            updater: Updater { name: "sim".into(), version: [1, 0].into() },
            os: OS { platform: "p".into(), version: "1".into(), service_pack: "".into(), arch: "a".into() },
            service_url: "https://omaha.example.test/json".into(),
            omaha_public_keys: Some(pk.clone()),
        };
        // ---- exchanges in flight
        let n = 1 + lock(&world).draws.draw("n_exchanges", 3) as usize;
        let mut ex: Vec<Exch> = vec![];
        for e in 0..n {
            let key = format!("x#{e}");
            let (via_builder, body, napps) = {
                let mut w = lock(&world);
                let vb = w.draws.draw(&format!("{key}/via_builder"), 3) != 2;
                let body = resp_body(&mut w.draws, &key);
                let napps = 1 + w.draws.draw(&format!("{key}/napps"), 3);
                (vb, body, napps)
            };
            let meta = if via_builder {
                let params = RequestParams::default();
                let mut rb = RequestBuilder::new(&config, &params);
                for i in 0..napps {
                    let app = App::builder().id(format!("app{i}")).version([1, i as u32]).build();
                    rb = rb.add_update_check(&app).add_ping(&app);
                }
                let (req, meta) = {
                    let _g = SutGuard::enter();
                    rb.build(Some(&handler)).expect("build")
                };
                let meta = meta.expect("metadata");
                // the server sees the wire: body bytes + cup2key from the URL
                let wire = futures::executor::block_on(hyper::body::to_bytes(req.into_body())).unwrap().to_vec();
                if wire != meta.request_body {
                    mon.viol(pr, "R3", &key, "retained request body differs from the wire body".to_string());
                }
                meta
            } else {
                let mut w = lock(&world);
                let kind = w.draws.draw(&format!("{key}/reqbody"), 4);
                let rb: Vec<u8> = match kind {
                    0 => vec![],
                    1 => b"{}".to_vec(),
                    2 => vec![0u8; 5000],
                    _ => (0..64).map(|i| (w.draws.raw(&format!("{key}/q{i}")) & 0xff) as u8).collect(),
                };
                let mut nonce = [0u8; 32];
                for (i, b) in nonce.iter_mut().enumerate() {
                    *b = (w.draws.raw(&format!("{key}/n{i}")) & 0xff) as u8;
                }
                // which of the client's registered ids the request was sent with
                let which = w.draws.draw(&format!("{key}/keyid"), registry_cfg.len() as u64) as usize;
                RequestMetadata { request_body: rb, public_key_id: registry_cfg[which].0, nonce: Nonce::from(nonce) }
            };
            let kid = meta.public_key_id;
            let c2k = format!("{}:{}", kid, meta.nonce);
            let kidx = server_keys.iter().find(|(id, _)| *id == kid).map(|(_, k)| *k).unwrap();
            let etag = sign_etag(&keys()[kidx], &meta.request_body, &body, &c2k);
            let mut w = lock(&world);
            let etag = match w.draws.draw(&format!("{key}/enc"), 3) {
                0 => etag,
                1 => format!("\"{etag}\""),
                _ => format!("W/\"{etag}\""),
            };
            ex.push(Exch { meta, resp_body: body, etag: Some(etag.into_bytes()), key_id: kid });
        }
        // ---- adversary: one mutation per exchange
        for e in 0..n {
            let key = format!("x#{e}");
            let mut w = lock(&world);
            let mutation = w.draws.draw(&format!("{key}/mut"), 30);
            // a handler is stateful in principle: sometimes the authentic exchange is verified
            // first and the tampered one right after it on the same handler
            let authentic_first = mutation != 0 && w.draws.draw(&format!("{key}/authentic_first"), 3) == 0;
            let mut breaking: Option<bool> = Some(mutation != 0); // None = oracle decides alone
            let mut meta = ex[e].meta.clone();
            let mut body = ex[e].resp_body.clone();
            let mut etag = ex[e].etag.clone();
            let mut kid = ex[e].key_id;
            let c2k = format!("{}:{}", kid, meta.nonce);
            let colon = etag.as_ref().and_then(|t| t.iter().position(|b| *b == b':'));
            let mname: String = match mutation {
                0 => "none".into(),
                1 => {
                    if body.is_empty() {
                        body.push(0);
                    } else {
                        let pos = w.draws.draw(&format!("{key}/pos"), body.len() as u64) as usize;
                        body[pos] ^= 1 << w.draws.draw(&format!("{key}/bit"), 8);
                    }
                    "body_bitflip".into()
                }
                2 => {
                    if meta.request_body.is_empty() {
                        meta.request_body.push(1);
                    } else {
                        let pos = w.draws.draw(&format!("{key}/pos"), meta.request_body.len() as u64) as usize;
                        meta.request_body[pos] ^= 1 << w.draws.draw(&format!("{key}/bit"), 8);
                    }
                    "retained_request_bitflip".into()
                }
                3 => {
                    let mut nb: [u8; 32] = meta.nonce.into();
                    let pos = w.draws.draw(&format!("{key}/pos"), 32) as usize;
                    nb[pos] ^= 1 << w.draws.draw(&format!("{key}/bit"), 8);
                    meta.nonce = Nonce::from(nb);
                    "nonce_bitflip".into()
                }
                4 => {
                    // another id: registered (other key) or unknown
                    let others: Vec<u64> = registry_cfg.iter().map(|(i, _)| *i).filter(|i| *i != kid).collect();
                    if !others.is_empty() && w.draws.draw(&format!("{key}/kid.kind"), 2) == 0 {
                        kid = others[w.draws.draw(&format!("{key}/kid.v"), others.len() as u64) as usize];
                    } else {
                        kid = kid.wrapping_add(999_999);
                    }
                    "key_id_changed".into()
                }
                5 | 6 | 7 => {
                    // one hex digit of: signature half / hash half head / hash half tail
                    if let (Some(t), Some(c)) = (etag.as_mut(), colon) {
                        let start = if t.starts_with(b"W/\"") { 3 } else if t.starts_with(b"\"") { 1 } else { 0 };
                        let end = if start > 0 { t.len() - 1 } else { t.len() };
                        let pos = match mutation {
                            5 => start + w.draws.draw(&format!("{key}/pos"), (c - start) as u64) as usize,
                            6 => c + 1 + w.draws.draw(&format!("{key}/pos"), 16) as usize,
                            _ => end - 1 - w.draws.draw(&format!("{key}/pos"), 32) as usize,
                        };
                        flip_hex(t, pos);
                    }
                    if mutation == 5 {
                        breaking = None; // a changed DER byte may, in principle, still decode to the same (r,s)
                    }
                    ["sig_hexflip", "hash_head_hexflip", "hash_tail_hexflip"][(mutation - 5) as usize].into()
                }
                8 => {
                    if n > 1 {
                        let o = (e + 1) % n;
                        etag = ex[o].etag.clone();
                        "etag_swap".into()
                    } else {
                        etag = None;
                        "etag_missing".into()
                    }
                }
                9 => {
                    if let Some(t) = etag.as_mut() {
                        let keep = w.draws.draw(&format!("{key}/keep"), t.len() as u64) as usize;
                        t.truncate(keep);
                    }
                    "etag_truncate".into()
                }
                10 => {
                    etag = Some(sign_etag(&keys()[attacker], &meta.request_body, &body, &c2k).into_bytes());
                    "resign_other_key".into()
                }
                11 | 12 | 13 | 14 => {
                    let kidx = server_keys.iter().find(|(id, _)| *id == kid).map(|(_, k)| *k).unwrap();
                    let rq = Sha256::digest(&meta.request_body);
                    let rs = Sha256::digest(&body);
                    let mut h = Sha256::new();
                    if mutation == 11 && rq == rs {
                        breaking = None; // swapping equal hashes changes nothing
                    }
                    match mutation {
                        11 => {
                            h.update(rs);
                            h.update(rq);
                            h.update(c2k.as_bytes());
                        }
                        12 => {
                            h.update(rq);
                            h.update(c2k.as_bytes());
                        }
                        13 => {
                            h.update(rq);
                            h.update(rs);
                        }
                        _ => {
                            h.update(rs);
                            h.update(c2k.as_bytes());
                        }
                    }
                    let sig: Signature = keys()[kidx].sign(&h.finalize());
                    etag = Some(format!("{}:{}", hex::encode(sig.to_der().as_bytes()), hex::encode(rq)).into_bytes());
                    ["recompose_swapped", "recompose_no_response_hash", "recompose_no_cup2key", "recompose_no_request_hash"][(mutation - 11) as usize].into()
                }
                15 => {
                    let texts: [&[u8]; 14] = [b"", b"\"", b"\"\"", b"W/\"", b"W/\"\"", b":", b"::", b"W/\":\"", b"abc", b"zz:zz", b"00:00", b"\"00:00", b"W/00:00\"", b"3006020101020101:00"];
                    etag = Some(texts[w.draws.draw(&format!("{key}/text"), 14) as usize].to_vec());
                    breaking = Some(true);
                    "arbitrary_text".into()
                }
                16 => {
                    let nlen = 1 + w.draws.draw(&format!("{key}/len"), 40) as usize;
                    let t: Vec<u8> = (0..nlen)
                        .map(|i| {
                            let set = b"0123456789abcdefW/\":\xc3\xa9 \t~";
                            set[(w.draws.raw(&format!("{key}/t{i}")) % set.len() as u64) as usize]
                        })
                        .collect();
                    etag = Some(t);
                    breaking = None;
                    "random_text".into()
                }
                17 => {
                    // upper-case hex: the same bytes, still authentic
                    if let Some(t) = etag.as_mut() {
                        let start = if t.starts_with(b"W/") { 2 } else { 0 };
                        for b in t[start..].iter_mut() {
                            *b = b.to_ascii_uppercase();
                        }
                    }
                    breaking = Some(false);
                    "uppercase_hex".into()
                }
                18 => {
                    // one more wrapper layer
                    if let Some(t) = etag.take() {
                        let mut v = b"\"".to_vec();
                        v.extend_from_slice(&t);
                        v.push(b'"');
                        etag = Some(v);
                    }
                    breaking = None; // plain -> quoted is still authentic; quoted -> double quoted is not
                    "extra_wrapper".into()
                }
                19 => {
                    // hash half replaced by the hash of the response (right length, wrong value)
                    if let (Some(t), Some(c)) = (etag.as_mut(), colon) {
                        let start_q = t.ends_with(b"\"");
                        let mut v = t[..=c].to_vec();
                        v.extend_from_slice(hex::encode(Sha256::digest(&body)).as_bytes());
                        if start_q {
                            v.push(b'"');
                        }
                        *t = v;
                    }
                    if Sha256::digest(&body) == Sha256::digest(&meta.request_body) {
                        breaking = None;
                    }
                    "hash_of_response".into()
                }
                20 => {
                    // replay: the genuine ETag and body of exchange e delivered for another request
                    if n > 1 {
                        let o = (e + 1) % n;
                        meta = ex[o].meta.clone();
                        kid = ex[o].key_id;
                        "replay_for_other_request".into()
                    } else {
                        meta.request_body.push(b' ');
                        "retained_request_extended".into()
                    }
                }
                21 => {
                    body.extend_from_slice(b" ");
                    "body_extended".into()
                }
                24 | 25 => {
                    // the signature half made longer with further hex digits (after or before the
                    // DER bytes); the request-hash half stays authentic, so the verifier gets as far
                    // as decoding the signature
                    if let (Some(t), Some(c)) = (etag.as_mut(), colon) {
                        let k = [1usize, 2, 3, 8, 40, 200][w.draws.draw(&format!("{key}/pad"), 6) as usize];
                        let pad: Vec<u8> = std::iter::repeat(*b"00").take(k).flatten().collect();
                        if mutation == 24 {
                            t.splice(c..c, pad);
                        } else {
                            let start = if t.starts_with(b"W/\"") { 3 } else if t.starts_with(b"\"") { 1 } else { 0 };
                            t.splice(start..start, pad);
                        }
                    }
                    breaking = None;
                    if mutation == 24 { "signature_padded".into() } else { "signature_prefixed".into() }
                }
                27 => {
                    // re-signed with ANOTHER REGISTERED key (not the one of the id the request was sent
                    // with): only breaking when the key material differs
                    match server_keys.iter().find(|(id, _)| *id != kid) {
                        Some((_, other)) => {
                            let this = server_keys.iter().find(|(id, _)| *id == kid).map(|(_, k)| *k).unwrap();
                            if *other == this {
                                breaking = None;
                            }
                            etag = Some(sign_etag(&keys()[*other], &meta.request_body, &body, &c2k).into_bytes());
                            "resign_other_registered_key".into()
                        }
                        None => {
                            etag = Some(sign_etag(&keys()[attacker], &meta.request_body, &body, &c2k).into_bytes());
                            "resign_other_key".into()
                        }
                    }
                }
                26 => {
                    // a '0' high nibble written as '+' (a lenient integer parser reads "+2" as 2)
                    if let Some(t) = etag.as_mut() {
                        let start = if t.starts_with(b"W/\"") { 3 } else if t.starts_with(b"\"") { 1 } else { 0 };
                        let c = colon.unwrap_or(t.len());
                        // even offsets within either half that hold '0'
                        let mut cands: Vec<usize> = (start..c).step_by(2).filter(|i| t[*i] == b'0').collect();
                        cands.extend((c + 1..t.len()).step_by(2).filter(|i| t[*i] == b'0'));
                        if !cands.is_empty() {
                            let k = cands[w.draws.draw(&format!("{key}/plus.pos"), cands.len() as u64) as usize];
                            t[k] = b'+';
                        }
                    }
                    "hex_digit_plus_sign".into()
                }
                28 => {
                    // cut from the left: at any position, or exactly up to the colon (":<authentic hash>")
                    if let Some(t) = etag.as_mut() {
                        let cut = match (w.draws.draw(&format!("{key}/cut.kind"), 3), colon) {
                            (0, Some(c)) => c,
                            _ => 1 + w.draws.draw(&format!("{key}/cut.pos"), t.len().max(2) as u64 - 1) as usize,
                        };
                        t.drain(..cut.min(t.len()));
                    }
                    breaking = None; // cutting only the W/ of a weak form leaves an authentic quoted form
                    "etag_cut_left".into()
                }
                29 => {
                    // one half emptied, wrapper and colon kept: "<wrapper>:<hash>" or "<wrapper><sig>:"
                    if let (Some(t), Some(c)) = (etag.as_mut(), colon) {
                        let start = if t.starts_with(b"W/\"") { 3 } else if t.starts_with(b"\"") { 1 } else { 0 };
                        let end = if start > 0 { t.len() - 1 } else { t.len() };
                        if w.draws.draw(&format!("{key}/half"), 2) == 0 {
                            t.drain(start..c);
                        } else {
                            t.drain(c + 1..end);
                        }
                    }
                    "etag_half_emptied".into()
                }
                _ => {
                    // a further ':'-separated field appended to an authentic ETag (inside the wrapper)
                    if let Some(t) = etag.as_mut() {
                        let junk: &[u8] = [&b":"[..], &b":00"[..], &b":junk"[..], &b"::"[..]][w.draws.draw(&format!("{key}/append"), 4) as usize];
                        if t.ends_with(b"\"") {
                            let q = t.pop().unwrap();
                            t.extend_from_slice(junk);
                            t.push(q);
                        } else {
                            t.extend_from_slice(junk);
                        }
                    }
                    "appended_field".into()
                }
            };
            drop(w);
            if authentic_first {
                let e0 = &ex[e];
                if let Some(t) = &e0.etag {
                    if let Ok(hv) = http::HeaderValue::from_bytes(t) {
                        let resp0 = http::Response::builder().status(200).header("etag", hv).body(e0.resp_body.clone()).unwrap();
                        let r0 = {
                            let _g = SutGuard::enter();
                            handler.verify_response(&e0.meta, &resp0, e0.key_id)
                        };
                        mon.count("R3.authentic_verified_first");
                        if r0.is_err() {
                            mon.viol(pr, "R3", &key, "the library rejects an authentic exchange".to_string());
                        }
                    }
                }
            }
            // ---- the library decides
            let mut builder = http::Response::builder().status(200);
            let mut header_ok = true;
            if let Some(t) = &etag {
                match http::HeaderValue::from_bytes(t) {
                    Ok(hv) => builder = builder.header("etag", hv),
                    Err(_) => header_ok = false,
                }
            }
            if !header_ok {
                continue;
            }
            let resp = builder.body(body.clone()).unwrap();
            let lib = {
                let _g = SutGuard::enter();
                handler.verify_response(&meta, &resp, kid)
            };
            // ---- the oracle decides
            let nonce_hex = hex::encode(Into::<[u8; 32]>::into(meta.nonce));
            let oracle = ref_verify(etag.as_deref(), &meta.request_body, &body, kid, &nonce_hex, &registry_cfg);
            mon.count("R1.verdicts_compared");
            mon.count(&format!("mut.{mname}"));
            mon.sig(format!("{mname}|{}|{}", lib.is_ok(), etag.as_ref().map(|t| t.first().cloned().unwrap_or(0)).unwrap_or(0) as char));
            let site = format!("{key}/{mname}");
            match (&lib, &oracle) {
                (Ok(sig), Some(want)) => {
                    mon.count("R2.accepted");
                    use p256::ecdsa::signature::Signature as _;
                    if sig.as_bytes() != want.as_slice() {
                        mon.viol(pr, "R2", &site, "the returned signature differs from the one the ETag carries".to_string());
                    }
                    // the stored-signature interface must agree
                    let again = {
                        let _g = SutGuard::enter();
                        handler.verify_response_with_signature(sig, &meta.request_body, &body, kid, &meta.nonce)
                    };
                    if again.is_err() {
                        mon.viol(pr, "R1", &site, "verify_response accepted but verify_response_with_signature rejects the same exchange".to_string());
                    }
                }
                (Ok(_), None) => mon.viol(pr, if breaking == Some(true) { "R4" } else { "R1" }, &site, format!("the library accepts an exchange that is not authentic ({mname})")),
                (Err(e), Some(_)) => mon.viol(pr, if mutation == 0 { "R3" } else { "R1" }, &site, format!("the library rejects an authentic exchange ({mname}): {e:?}")),
                (Err(_), None) => {
                    mon.count("R4.rejected");
                }
            }
            match breaking {
                Some(true) if oracle.is_some() => {
                    // the adversary's own classification and the oracle must agree, or the harness is wrong
                    mon.viol(pr, "HARNESS", &site, format!("mutation {mname} classified as breaking but the reference verifier accepts"));
                }
                Some(false) if oracle.is_none() => {
                    mon.viol(pr, "HARNESS", &site, format!("mutation {mname} classified as harmless but the reference verifier rejects"));
                }
                _ => {}
            }
            // stored-signature interface on a tampered exchange with a well-formed signature
            if let (Some(t), true) = (&ex[e].etag, mutation == 1 || mutation == 3 || mutation == 21) {
                let s = String::from_utf8_lossy(t).to_string();
                let inner = s.trim_start_matches("W/").trim_matches('"');
                if let Some((sh, _)) = inner.split_once(':') {
                    if let Ok(bytes) = hex::decode(sh) {
                        use p256::ecdsa::signature::Signature as _;
                        if let Ok(ds) = p256::ecdsa::DerSignature::from_bytes(&bytes) {
                            let r = {
                                let _g = SutGuard::enter();
                                handler.verify_response_with_signature(&ds, &meta.request_body, &body, kid, &meta.nonce)
                            };
                            mon.count("R4.stored_signature_checked");
                            if r.is_ok() {
                                mon.viol(pr, "R4", &site, format!("verify_response_with_signature accepts a tampered exchange ({mname})"));
                            }
                        }
                    }
                }
            }
            if mon.sample.is_none() && mutation != 0 {
                mon.sample = Some(serde_json::json!({"mutation": mname, "etag": etag.as_ref().map(|t| String::from_utf8_lossy(t).to_string()), "library_accepts": lib.is_ok(), "oracle_accepts": oracle.is_some()}));
            }
            lock(&world).rec(Kind::Note(format!("{site}: lib={} oracle={}", lib.is_ok(), oracle.is_some())));
        }
    }));
    install_hooks(None);
    let panic = match result {
        Ok(()) => None,
        Err(_) => crate::take_last_panic(),
    };
    if let Some(pi) = &panic {
        if pi.in_sut {
            mon.viol("C01", "R5", "verify", format!("panic in the verifier: {} at {}", pi.msg, pi.location));
        }
    }
    let (hist, decisions, stats) = {
        let mut w = lock(&world);
        (std::mem::take(&mut w.hist), std::mem::take(&mut w.draws.log), w.stats.clone())
    };
    (RunOut { hist, decisions, stats, panic, steps: 0, vt_end: 0 }, mon)
}
