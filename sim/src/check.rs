//! The check harness: seeded batches of runs on a worker pool, monitors, minimisation,
//! replay files, known findings, evidence.

use crate::exec::{RunCfg, RunOut};
use crate::hist::*;
use crate::mon::{MonOut, Violation};
use crate::profile::Profile;
use crate::rng;
use serde_json::{json, Value};
use std::collections::{BTreeMap, BTreeSet};
use std::sync::atomic::{AtomicU64, Ordering};
use std::sync::{Arc, Mutex};
use std::time::Instant;

/// One batch: a profile, a number of runs, a monitor, and optional strata.
pub struct Batch {
    pub name: String,
    pub profile: Profile,
    pub runs: u64,
    /// run one simulated execution and evaluate it
    pub exec: fn(&Profile, &RunCfg) -> (RunOut, MonOut),
    /// forced decisions for run index i (stratified seeding)
    pub strata: Option<fn(u64) -> Vec<(String, u64)>>,
}

pub struct PropDef {
    pub id: &'static str,
    pub level: &'static str,
    pub rule_text: &'static str,
    pub assumptions: Vec<&'static str>,
    pub real_code: &'static str,
    pub stub_code: &'static str,
    pub batches: fn(&str) -> Vec<Batch>,
}

#[derive(Default)]
pub struct Agg {
    pub runs: u64,
    pub steps: u64,
    pub sim_ns: u128,
    pub stats: BTreeMap<String, u64>,
    pub counters: BTreeMap<String, u64>,
    pub sigs: BTreeSet<u64>,
    pub interleavings: BTreeSet<u64>,
    pub samples: Vec<Value>,
    pub violations: Vec<(String, u64, Violation, BTreeMap<String, u64>)>, // batch, run_index, violation, strata
    pub harness_errors: Vec<String>,
}

pub fn run_seed(base: u64, batch: &str, idx: u64) -> u64 {
    rng::mix(rng::mix(base, batch), &format!("run#{idx}"))
}

fn interleaving_hash(h: &History) -> u64 {
    let mut x: u64 = 1469598103934665603;
    for r in h {
        let tag: &str = match &r.kind {
            Kind::LifeStart { .. } => "LS",
            Kind::Started => "St",
            Kind::LifeEnd { why } => why.as_str(),
            Kind::Poll { .. } => "Po",
            Kind::StreamEnd => "SE",
            Kind::Event(e) => match e {
                EventRec::State(_) => "eS",
                EventRec::Schedule(_) => "eC",
                EventRec::Proto(_) => "eP",
                EventRec::Result(Ok(_)) => "eRo",
                EventRec::Result(Err(_)) => "eRe",
                EventRec::Progress(_) => "eG",
                EventRec::ServerResponse(_) => "eV",
                EventRec::InstallerError(_) => "eI",
            },
            Kind::Policy(p) => match p {
                PolicyRec::ComputeNext { .. } => "pN",
                PolicyRec::CheckAllowed { .. } => "pA",
                PolicyRec::CanStart { .. } => "pC",
                PolicyRec::RebootAllowed { .. } => "pR",
                PolicyRec::RebootNeeded { .. } => "pD",
            },
            Kind::TimerArm { .. } => "TA",
            Kind::TimerFire { .. } => "TF",
            Kind::TimerCmp { .. } => "TC",
            Kind::TimerParts { .. } => "TP",
            Kind::AppSetWrite => "AW",
            Kind::AppSetRead => "AR",
            Kind::CtlAbandon { .. } => "CA",
            Kind::NeighbourMutate { .. } => "NM",
            Kind::OpCancel { .. } => "OC",
            Kind::HttpSend { .. } => "HS",
            Kind::ServerHandled { .. } => "SH",
            Kind::HttpDeliver { result, .. } => match result {
                Ok(r) => {
                    if r.tamper == "none" {
                        "HDo"
                    } else {
                        "HDt"
                    }
                }
                Err(_) => "HDe",
            },
            Kind::Installer(_) => "In",
            Kind::Disk { ok, .. } => {
                if *ok {
                    "Dk"
                } else {
                    "Dx"
                }
            }
            Kind::DiskCommitted { .. } => "DC",
            Kind::Probe { .. } => "Pr",
            Kind::Metric(_) => "Me",
            Kind::CtlInvoke { .. } => "CI",
            Kind::CtlReply { .. } => "CR",
            Kind::CtlHandleDrop { .. } => "CD",
            Kind::StreamDrop => "SD",
            Kind::ClockRead { .. } => "",
            Kind::ClockJump { .. } => "CJ",
            Kind::Crash { .. } => "Cr",
            Kind::Stuck => "Sk",
            Kind::StepLimit => "SL",
            Kind::Note(_) => "No",
            Kind::MockAnswer { .. } => "MA",
            Kind::MockFailure { .. } => "MF",
            Kind::MockDirect { .. } => "MD",
            Kind::MockDirectEvent { .. } => "ME",
        };
        for b in tag.as_bytes() {
            x ^= *b as u64;
            x = x.wrapping_mul(1099511628211);
        }
        x = x.wrapping_mul(31);
    }
    x
}

pub fn make_cfg(base_seed: u64, batch: &Batch, idx: u64) -> RunCfg {
    let mut cfg = RunCfg { seed: run_seed(base_seed, &batch.name, idx), ..Default::default() };
    if let Some(st) = batch.strata {
        for (k, v) in st(idx) {
            if k == "__seed_index" {
                // several run indices share one sampled history (fault enumeration over it)
                cfg.seed = run_seed(base_seed, &batch.name, v);
            } else {
                cfg.overrides.insert(k, v);
            }
        }
    }
    cfg
}

/// Execute on a fresh OS thread; a panic outside the run's own catch is a harness error.
pub fn exec_in_thread(
    f: fn(&Profile, &RunCfg) -> (RunOut, MonOut),
    p: &Profile,
    cfg: &RunCfg,
) -> Result<(RunOut, MonOut), String> {
    let p = p.clone();
    let cfg = cfg.clone();
    let (tx, rx) = std::sync::mpsc::channel();
    let in_sut = Arc::new(std::sync::atomic::AtomicBool::new(false));
    let in_sut2 = in_sut.clone();
    let h = std::thread::Builder::new()
        .stack_size(32 << 20)
        .spawn(move || {
            crate::world::IS_RUN_THREAD.with(|c| c.set(true));
            crate::world::SUT_FLAG.with(|f| *f.borrow_mut() = Some(in_sut2));
            let r = std::panic::catch_unwind(std::panic::AssertUnwindSafe(|| f(&p, &cfg)));
            let _ = tx.send(r.map_err(|_| crate::take_last_panic()));
        })
        .map_err(|e| format!("spawn: {e}"))?;
    // a run that never returns (the code under test loops without touching the environment)
    // must not hang the batch: give up on it after a generous wall-clock limit
    let t0 = Instant::now();
    loop {
        match rx.recv_timeout(std::time::Duration::from_millis(500)) {
            Ok(Ok(x)) => {
                let _ = h.join();
                return Ok(x);
            }
            Ok(Err(pi)) => {
                let _ = h.join();
                return Err(format!("harness panic: {:?}", pi));
            }
            Err(_) => {
                // a run normally takes milliseconds; one that is still going after the limit, or while
                // the process has grown past the memory limit, is given up (its thread cannot be stopped)
                let over_time = t0.elapsed().as_secs() >= run_timeout_s();
                let over_mem = t0.elapsed().as_secs() >= 5 && rss_mb() > mem_limit_mb();
                if over_time || over_mem {
                    // library code that spins also polls environment futures now and then: sample the mark
                    let mut sut = false;
                    for _ in 0..100 {
                        if in_sut.load(Ordering::Relaxed) {
                            sut = true;
                            break;
                        }
                        std::thread::sleep(std::time::Duration::from_millis(2));
                    }
                    return Err(format!("TIMEOUT{}: the run did not return ({}; library code running: {})", if sut { "-SUT" } else { "" }, if over_mem { "process memory limit exceeded" } else { "wall-clock limit" }, sut));
                }
            }
        }
    }
}

pub fn run_timeout_s() -> u64 {
    std::env::var("VERIF_RUN_TIMEOUT_S").ok().and_then(|s| s.parse().ok()).unwrap_or(40)
}

pub fn mem_limit_mb() -> u64 {
    std::env::var("VERIF_MEM_LIMIT_MB").ok().and_then(|s| s.parse().ok()).unwrap_or(12_000)
}

/// resident set size of this process in MiB (0 if it cannot be read)
pub fn rss_mb() -> u64 {
    std::fs::read_to_string("/proc/self/statm").ok().and_then(|s| s.split_whitespace().nth(1).and_then(|p| p.parse::<u64>().ok())).map(|pages| pages * 4096 / (1 << 20)).unwrap_or(0)
}

/// set when a run was given up while library code was running: the batch stops (the abandoned
/// thread keeps spinning, possibly allocating) and the check reports and exits at once
pub static HANG_SEEN: std::sync::atomic::AtomicBool = std::sync::atomic::AtomicBool::new(false);

pub fn run_batch(base_seed: u64, batch: &Batch, workers: usize, deadline: Instant, agg: &Mutex<Agg>) {
    let next = Arc::new(AtomicU64::new(0));
    std::thread::scope(|s| {
        for _ in 0..workers {
            let next = next.clone();
            s.spawn(move || loop {
                let idx = next.fetch_add(1, Ordering::SeqCst);
                if idx >= batch.runs || Instant::now() > deadline || HANG_SEEN.load(Ordering::SeqCst) {
                    break;
                }
                let cfg = make_cfg(base_seed, batch, idx);
                match exec_in_thread(batch.exec, &batch.profile, &cfg) {
                    Ok((out, mon)) => {
                        let ih = interleaving_hash(&out.hist);
                        let mut a = agg.lock().unwrap();
                        a.runs += 1;
                        a.steps += out.steps;
                        a.sim_ns += out.vt_end as u128;
                        for (k, v) in &out.stats {
                            *a.stats.entry(k.clone()).or_insert(0) += v;
                        }
                        for (k, v) in &mon.counters {
                            *a.counters.entry(k.clone()).or_insert(0) += v;
                        }
                        for sg in &mon.sigs {
                            a.sigs.insert(rng::hash_str(sg));
                        }
                        a.interleavings.insert(ih);
                        if a.samples.len() < 3 {
                            if let Some(smp) = mon.sample.clone() {
                                // what one explored case looks like: the run's identity, its non-default
                                // scheduler / fault decisions (first 20) and what the monitor looked at
                                let nz: Vec<Value> = out.decisions.iter().filter(|(_, _, v)| *v != 0).take(20).map(|(k, n, v)| json!(format!("{k}={v}/{n}"))).collect();
                                let nz_total = out.decisions.iter().filter(|(_, _, v)| *v != 0).count();
                                a.samples.push(json!({
                                    "batch": batch.name,
                                    "run_index": idx,
                                    "run_seed": cfg.seed,
                                    "history_records": out.hist.len(),
                                    "scheduler_steps": out.steps,
                                    "simulated_time_s": out.vt_end / 1_000_000_000,
                                    "non_default_decisions_total": nz_total,
                                    "non_default_decisions_first": nz,
                                    "case": smp,
                                }));
                            }
                        }
                        if let Some(pi) = &out.panic {
                            if !pi.in_sut {
                                a.harness_errors.push(format!(
                                    "batch {} run {}: panic outside code under test: {} at {}",
                                    batch.name, idx, pi.msg, pi.location
                                ));
                            }
                        }
                        for v in mon.violations {
                            if a.violations.len() < 200 {
                                a.violations.push((batch.name.clone(), idx, v, cfg.overrides.clone()));
                            }
                        }
                    }
                    Err(e) => {
                        let mut a = agg.lock().unwrap();
                        if e.starts_with("TIMEOUT-SUT") {
                            // the code under test loops without touching its environment: whatever the
                            // property says about an outcome, a reply or an end of the flow does not happen
                            HANG_SEEN.store(true, Ordering::SeqCst);
                            let prop = batch.name.split('-').next().unwrap_or("").to_uppercase();
                            let rule = match prop.as_str() {
                                "C14" => "R2",
                                "C13" => "R3",
                                "C11" => "R6",
                                _ => "HANG",
                            };
                            a.violations.push((
                                batch.name.clone(),
                                idx,
                                Violation { prop: prop.clone(), rule: format!("{prop}.{rule}"), site: "hang".into(), detail: format!("the run did not return: the code under test loops without touching its environment ({e})") },
                                cfg.overrides.clone(),
                            ));
                        } else {
                            a.harness_errors.push(format!("batch {} run {}: {}", batch.name, idx, e));
                        }
                    }
                }
            });
        }
    });
}

// ------------------------------------------------------------------ minimisation

pub struct Failing {
    pub cfg: RunCfg,
    pub violation: Violation,
    pub decisions: Vec<rng::Decision>,
    pub hist_hash: String,
}

fn same_rule(mon: &MonOut, rule: &str, site: &str) -> Option<Violation> {
    // non-positional sites (e.g. a panic location) are part of the violation's identity
    let is_pos = |s: &str| {
        (s.starts_with('L') && s[1..].chars().next().map(|c| c.is_ascii_digit()).unwrap_or(false)) || s.starts_with("x#") || s.starts_with("behaviour#")
    };
    let positional = is_pos(site);
    // a positional site may move while shrinking, but must stay positional (never slide into
    // a differently named violation of the same rule, e.g. a known finding)
    mon.violations.iter().find(|v| v.rule == rule && ((positional && is_pos(&v.site)) || v.site == site)).cloned()
}

/// Shrink the failing run: first make it self-contained ("every decision is 0 except these"),
/// then delta-debug the set of non-zero decisions, keeping a candidate iff the same rule of
/// the same monitor still fails.
pub fn minimise(batch: &Batch, cfg: &RunCfg, rule: &str, site: &str, budget: std::time::Duration) -> Option<Failing> {
    let start = Instant::now();
    let (out, mon) = exec_in_thread(batch.exec, &batch.profile, cfg).ok()?;
    let v0 = same_rule(&mon, rule, site)?;
    let mut best = Failing { cfg: cfg.clone(), violation: v0, decisions: out.decisions.clone(), hist_hash: history_hash(&out.hist) };
    // explicit form: default zero, overrides = every non-zero decision
    let mut explicit: BTreeMap<String, u64> = BTreeMap::new();
    for (k, _n, v) in &out.decisions {
        if *v != 0 {
            explicit.insert(k.clone(), *v);
        }
    }
    let mut cand = cfg.clone();
    cand.overrides = explicit.clone();
    cand.default_zero = true;
    let mut tries = 0u32;
    let mut test = |c: &RunCfg, tries: &mut u32| -> Option<Failing> {
        *tries += 1;
        let (o, m) = exec_in_thread(batch.exec, &batch.profile, c).ok()?;
        let v = same_rule(&m, rule, site)?;
        Some(Failing { cfg: c.clone(), violation: v, decisions: o.decisions.clone(), hist_hash: history_hash(&o.hist) })
    };
    match test(&cand, &mut tries) {
        Some(f) => best = f,
        None => return Some(best), // could not make it self-contained; report as is
    }
    // ddmin over the keys of best.cfg.overrides
    let mut keys: Vec<String> = best.cfg.overrides.keys().cloned().collect();
    let mut n = 2usize;
    while keys.len() >= 1 && start.elapsed() < budget && tries < 3000 {
        let chunk = (keys.len() + n - 1) / n;
        let mut reduced = false;
        let mut i = 0;
        while i < keys.len() {
            let hi = (i + chunk).min(keys.len());
            // try removing keys[i..hi]
            let mut c = best.cfg.clone();
            for k in &keys[i..hi] {
                c.overrides.remove(k);
            }
            if let Some(f) = test(&c, &mut tries) {
                best = f;
                keys = best.cfg.overrides.keys().cloned().collect();
                n = (n - 1).max(2);
                reduced = true;
                break;
            }
            i = hi;
            if start.elapsed() >= budget || tries >= 3000 {
                break;
            }
        }
        if !reduced {
            if chunk <= 1 {
                break;
            }
            n = (n * 2).min(keys.len().max(1));
        }
    }
    // lower surviving values
    let keys: Vec<String> = best.cfg.overrides.keys().cloned().collect();
    for k in keys {
        if start.elapsed() >= budget || tries >= 3000 {
            break;
        }
        let v = best.cfg.overrides[&k];
        if v > 1 {
            let mut c = best.cfg.clone();
            c.overrides.insert(k.clone(), 1);
            if let Some(f) = test(&c, &mut tries) {
                best = f;
            }
        }
    }
    Some(best)
}

#[allow(clippy::too_many_arguments)]
pub fn write_replay(dir: &str, prop: &str, base_seed: u64, batch: &Batch, idx: u64, f: &Failing, tier: &str, n: usize) -> String {
    let _ = std::fs::create_dir_all(dir);
    let path = format!("{dir}/{prop}-{}-{}-{}-{}.json", f.violation.rule.replace('.', "_"), base_seed, idx, n);
    let nonzero: Vec<Value> = f
        .decisions
        .iter()
        .filter(|(_, _, v)| *v != 0)
        .map(|(k, n, v)| json!([k, n, v]))
        .collect();
    let doc = json!({
        "property": prop,
        "rule": f.violation.rule,
        "site": f.violation.site,
        "detail": f.violation.detail,
        "tier": tier,
        "base_seed": base_seed,
        "batch": batch.name,
        "run_index": idx,
        "run_seed": f.cfg.seed,
        "entropy_seed": f.cfg.entropy_seed,
        "default_zero": f.cfg.default_zero,
        "overrides": f.cfg.overrides,
        "profile": batch.profile,
        "history_sha256": f.hist_hash,
        "nonzero_decisions": nonzero,
    });
    std::fs::write(&path, serde_json::to_string_pretty(&doc).unwrap()).ok();
    path
}

// ------------------------------------------------------------------ known findings

pub struct Known {
    pub findings: Vec<(String, String, String, String)>, // prop, rule, site-substring, text
}

pub fn load_known(path: &str) -> Known {
    let mut k = Known { findings: vec![] };
    if let Ok(s) = std::fs::read_to_string(path) {
        for line in s.lines() {
            let line = line.trim();
            if let Some(rest) = line.strip_prefix("finding:") {
                // finding: property=C18 rule=C18.R5 site=<substring without spaces> <text>
                let mut prop = String::new();
                let mut rule = String::new();
                let mut site = String::new();
                let mut text = vec![];
                for tok in rest.split_whitespace() {
                    if let Some(v) = tok.strip_prefix("property=") {
                        prop = v.to_string();
                    } else if let Some(v) = tok.strip_prefix("rule=") {
                        rule = v.to_string();
                    } else if let Some(v) = tok.strip_prefix("site=") {
                        site = v.to_string();
                    } else {
                        text.push(tok);
                    }
                }
                k.findings.push((prop, rule, site, text.join(" ")));
            }
        }
    }
    k
}

impl Known {
    pub fn matches(&self, v: &Violation) -> Option<&(String, String, String, String)> {
        self.findings.iter().find(|(p, r, s, _)| *p == v.prop && *r == v.rule && v.site.contains(s.as_str()))
    }
}
