//! Property definitions: which profiles/batches decide which property.

use crate::check::{Batch, PropDef};
use crate::exec::{run_sm, RunCfg, RunOut};
use crate::mon::MonOut;
use crate::monitors::*;
use crate::profile::*;

const REAL: &str = "omaha_client::state_machine (+builder, observer, update_check), async_generator, request_builder, protocol::{request,response}, cup_ecdsa::StandardCupv2Handler, http_uri_ext, common::App::{load,persist}, storage::StorageExt, time conversions, futures channels/locks/select!";
const STUB: &str = "transport (no sockets), timers, clocks, disk, policy engine, installer, metrics sink, entropy (getrandom seam), select! branch order (futures-util seam), Omaha server (independent reference server)";

fn scale(tier: &str, quick: u64, thorough: u64) -> u64 {
    if tier == "thorough" {
        thorough
    } else {
        quick
    }
}

fn exec_c04(p: &Profile, cfg: &RunCfg) -> (RunOut, MonOut) {
    let (out, _w, _s) = run_sm(p, cfg);
    let mon = c04::monitor(&out);
    (out, mon)
}

pub fn c04_profile() -> Profile {
    let mut p = Profile::base("c04");
    p.mode = Mode::Either;
    p.max_checks = 3;
    p.apps_max = 4;
    p.net.none = 600;
    p.net.transport = 40;
    p.net.timeout = 20;
    p.net.user = 20;
    p.net.drop_response = 20;
    p.net.status = 60;
    p.net.body_garbage = 40;
    p.net.byzantine_doc = 60;
    p.net.etag_tamper = 40;
    p.net.forged = 30;
    p.net.replay = 20;
    p.net.retry_after = 50;
    p.srv.app_outcome = [35, 45, 8, 6, 6];
    p.srv.app_list = [50, 15, 15, 20];
    p.installer.plan_fail_permille = 150;
    p.installer.app_result = [55, 20, 25];
    p.policy.can_start = [60, 20, 20];
    p.policy.check = [90, 4, 2, 2, 2];
    p.bad_url_permille = 20;
    p.metrics_err_permille = 30;
    p
}

fn c04_batches(tier: &str) -> Vec<Batch> {
    vec![Batch { name: "c04-main".into(), profile: c04_profile(), runs: scale(tier, 20_000, 400_000), exec: exec_c04, strata: None }]
}

fn exec_c02(p: &Profile, cfg: &RunCfg) -> (RunOut, MonOut) {
    let (out, _w, _s) = run_sm(p, cfg);
    let mon = c02::monitor(&out);
    (out, mon)
}
fn exec_c03(p: &Profile, cfg: &RunCfg) -> (RunOut, MonOut) {
    let (out, _w, _s) = run_sm(p, cfg);
    let mon = c03::monitor(&out);
    (out, mon)
}
fn exec_c06(p: &Profile, cfg: &RunCfg) -> (RunOut, MonOut) {
    let (out, _w, _s) = run_sm(p, cfg);
    let mon = c06::monitor(&out);
    (out, mon)
}
fn exec_c07(p: &Profile, cfg: &RunCfg) -> (RunOut, MonOut) {
    let (out, _w, _s) = run_sm(p, cfg);
    let mon = c07::monitor(&out);
    (out, mon)
}

/// C06.R7: the same run under 8 entropy streams; first-retry delays must not all be equal.
fn exec_c06_entropy(p: &Profile, cfg: &RunCfg) -> (RunOut, MonOut) {
    let (out, _w, _s) = run_sm(p, cfg);
    let mut mon = MonOut::default();
    if let Some(d0) = c06::first_backoff(&out) {
        mon.count("R7.runs_with_retry");
        let mut delays = vec![d0];
        for e in 1..8u64 {
            let mut c2 = cfg.clone();
            c2.entropy_seed = Some(crate::rng::mix(cfg.seed, &format!("entropy-variant-{e}")));
            // each variant on its own thread: rand's thread-local generator must be re-seeded
            let p2 = p.clone();
            let o2 = std::thread::spawn(move || run_sm(&p2, &c2).0).join();
            if let Ok(o2) = o2 {
                if let Some(d) = c06::first_backoff(&o2) {
                    delays.push(d);
                }
            }
        }
        mon.sig(format!("{:?}", delays));
        if delays.len() >= 4 && delays.iter().all(|d| *d == delays[0]) {
            mon.viol("C06", "R7", "first-backoff", format!("first-retry delay is {} ns under {} different entropy streams: the backoff is not randomised", delays[0], delays.len()));
        }
        for d in &delays {
            if *d % 1_000_000_000 != 0 {
                mon.count("R7.non_nominal_delays");
            }
        }
        mon.sample = Some(serde_json::json!({"first_retry_delays_ns_under_8_entropy_streams": format!("{:?}", delays)}));
    }
    (out, mon)
}

fn exec_c05(p: &Profile, cfg: &RunCfg) -> (RunOut, MonOut) {
    let (out, _w, _s) = run_sm(p, cfg);
    let mon = c05::monitor(&out);
    (out, mon)
}
fn exec_c11(p: &Profile, cfg: &RunCfg) -> (RunOut, MonOut) {
    let (mut out, _w, _s) = run_sm(p, cfg);
    if p.name == "c11-wake" {
        out.stats.insert("profile.far_timers".into(), 1);
    }
    let mon = c11::monitor(&out);
    (out, mon)
}
fn exec_c12(p: &Profile, cfg: &RunCfg) -> (RunOut, MonOut) {
    let (out, _w, _s) = run_sm(p, cfg);
    let mut mon = c12::monitor(&out);
    // "... or an on-demand request arrives": the converse of R3 is C11's trigger rule (an on-demand
    // request answered inside a reboot wait puts the reboot question); it is evaluated here too
    let c11m = c11::monitor(&out);
    for v in c11m.violations {
        if v.detail.contains("answered without the reboot question being put") {
            mon.violations.push(crate::mon::Violation { prop: "C12".into(), rule: "C12.R3".into(), site: v.site, detail: v.detail });
        }
    }
    if let Some(n) = c11m.counters.get("R4.on_demand_triggers_question") {
        mon.count_n("R3.on_demand_requests_during_a_reboot_wait", *n);
    }
    (out, mon)
}

pub fn c11_profile() -> Profile {
    let mut p = Profile::base("c11");
    p.mode = Mode::Start;
    p.max_checks = 4;
    p.apps_max = 2;
    p.clients_max = 4;
    p.requests_max = 6;
    p.drop_handles_permille = 80;
    p.drop_stream_permille = 60;
    p.lazy_consumer_permille = 150;
    p.latency = [5, 4, 1];
    p.net.none = 800;
    p.net.transport = 100;
    p.net.status = 100;
    p.srv.app_outcome = [30, 60, 4, 3, 3];
    p.installer.plan_fail_permille = 50;
    p.installer.app_result = [85, 10, 5];
    p.installer.reboot = [10, 60, 30];
    p.policy.check = [70, 5, 10, 10, 5];
    p.policy.can_start = [85, 8, 7];
    p.policy.reboot_needed_permille = 750;
    p.policy.reboot_allowed_permille = 300;
    p.next_delays_s = vec![0, 1, 60, 3600, 18000];
    p.neighbour_permille = 150;
    p.disk.slow = 100;
    // a client may use one handle object for all its requests and may give up on a request
    p.sticky_handle_permille = 400;
    p.abandon_request_permille = 120;
    p
}

fn c05_batches(tier: &str) -> Vec<Batch> {
    let mut p = c11_profile();
    p.name = "c05".into();
    p.srv.dup_app_permille = 120;
    p.invalid_app_permille = 60;
    p.policy.params_vary = 450;
    p.policy.check = [55, 15, 10, 10, 10];
    p.policy.can_start = [60, 20, 20];
    p.installer.app_result = [70, 10, 20];
    p.drop_stream_permille = 0;
    // a second lifetime after a reboot into the installed version: nothing may be sent at start-up
    // before the policy allowed a check
    p.max_lifetimes = 2;
    p.installer.reboot = [60, 20, 20];
    vec![Batch { name: "c05-main".into(), profile: p, runs: scale(tier, 15_000, 300_000), exec: exec_c05, strata: None }]
}
fn c11_batches(tier: &str) -> Vec<Batch> {
    // a policy under which the waiting machine is never idle: the next check time is always
    // "now", the timer for it is ready at once, and every check is refused.  A request must
    // still be read and answered within a few rounds of that loop.
    let mut busy = c11_profile();
    busy.name = "c11-busy".into();
    busy.next_delays_s = vec![0];
    busy.policy.min_wait_permille = 0;
    busy.policy.check = [0, 0, 50, 50, 0];
    busy.lateness = [1, 0, 0, 0];
    busy.timer_immediate_permille = 1000;
    busy.clients_max = 2;
    busy.requests_max = 3;
    busy.max_steps = 4000;
    busy.neighbour_permille = 0;
    busy.drop_handles_permille = 0;
    busy.drop_stream_permille = 0;
    busy.abandon_request_permille = 0;
    let mut wake = c11_profile();
    wake.name = "c11-wake".into();
    wake.next_delays_s = vec![36000, 72000];
    wake.policy.timing_kind = [1, 1, 0];
    // minimum waits of up to two hours: a request must cut them short as well
    wake.policy.min_wait_permille = 500;
    wake.lazy_consumer_permille = 0;
    wake.lateness = [1, 0, 0, 0];
    wake.latency = [5, 5, 0];
    wake.policy.check = [60, 0, 15, 15, 10];
    wake.drop_handles_permille = 0;
    wake.drop_stream_permille = 0;
    wake.max_checks = 2;
    // a machine that gives up at start (an app with an empty id or version 0 in the app set): requests
    // queued before its first poll and requests made afterwards must fail with "gone", not hang
    let mut invalid = c11_profile();
    invalid.name = "c11-invalid".into();
    invalid.invalid_app_permille = 350;
    invalid.request_at_start_permille = 500;
    invalid.max_checks = 2;
    vec![
        Batch { name: "c11-invalid".into(), profile: invalid, runs: scale(tier, 3_000, 60_000), exec: exec_c11, strata: None },
        Batch { name: "c11-main".into(), profile: c11_profile(), runs: scale(tier, 15_000, 300_000), exec: exec_c11, strata: None },
        Batch { name: "c11-busy".into(), profile: busy, runs: scale(tier, 4_000, 80_000), exec: exec_c11, strata: None },
        Batch { name: "c11-wake".into(), profile: wake, runs: scale(tier, 5_000, 100_000), exec: exec_c11, strata: None },
    ]
}
fn c12_batches(tier: &str) -> Vec<Batch> {
    let mut p = c11_profile();
    p.name = "c12".into();
    // restarts, also while an installed update waits for its reboot: the first wait of a lifetime is a wait like any other
    p.max_lifetimes = 2;
    p.crash_permille = 250;
    p.crash_horizon = 300;
    p.net.retry_after = 150;
    p.policy.min_wait_permille = 600;
    p.lateness = [3, 3, 2, 2];
    p.policy.check = [60, 5, 15, 10, 10];
    p.drop_stream_permille = 0;
    p.requests_max = 3;
    vec![Batch { name: "c12-main".into(), profile: p, runs: scale(tier, 15_000, 300_000), exec: exec_c12, strata: None }]
}

fn exec_c14(p: &Profile, cfg: &RunCfg) -> (RunOut, MonOut) {
    let (out, _w, _s) = run_sm(p, cfg);
    let mon = c14::monitor(&out);
    (out, mon)
}

/// C14.R3: the same run with the keyed disk-failure draws live and with all of them off;
/// requests sent and events announced must be identical.
fn exec_c14_diff(p: &Profile, cfg: &RunCfg) -> (RunOut, MonOut) {
    let (out, _w, _s) = run_sm(p, cfg);
    let mut mon = c14::monitor(&out);
    let nfail: u64 = out.stats.iter().filter(|(k, _)| k.ends_with("_error") && k.starts_with("disk.")).map(|(_, v)| *v).sum();
    if nfail > 0 && out.panic.is_none() {
        let mut c2 = cfg.clone();
        c2.healthy_disk_twin = true;
        let p2 = p.clone();
        if let Ok(twin) = std::thread::Builder::new().stack_size(32 << 20).spawn(move || run_sm(&p2, &c2).0).unwrap().join() {
            mon.count("R3.differential_pairs");
            mon.count_n("R3.failed_storage_operations", nfail);
            let a = c14::behaviour(&out);
            let b = c14::behaviour(&twin);
            if a != b {
                let i = a.iter().zip(b.iter()).position(|(x, y)| x != y).unwrap_or(a.len().min(b.len()));
                let ax: String = a.get(i).cloned().unwrap_or_else(|| "<end>".into()).chars().take(300).collect();
                let bx: String = b.get(i).cloned().unwrap_or_else(|| "<end>".into()).chars().take(300).collect();
                mon.viol("C14", "R3", format!("behaviour#{i}"), format!("with failing storage the run diverges from the healthy-storage run at observable #{i}: faulty={ax} healthy={bx}"));
            }
            let pat: Vec<&String> = out.stats.keys().filter(|k| k.starts_with("disk.")).collect();
            mon.sig(format!("diff:{:?}:{}", pat, nfail.min(8)));
        }
    }
    (out, mon)
}

pub fn c14_profile() -> Profile {
    let mut p = Profile::base("c14-hostile");
    p.policy.huge_min_wait_permille = 60;
    p.srv.dup_app_permille = 100;
    p.mode = Mode::Either;
    p.max_checks = 3;
    p.max_lifetimes = 2;
    p.logging = true;
    p.cup_permille = 300;
    p.apps_max = 3;
    p.net = NetRates {
        none: 350,
        transport: 40,
        timeout: 20,
        user: 10,
        drop_response: 20,
        status: 100,
        body_garbage: 150,
        body_bitflip: 120,
        body_truncate: 80,
        etag_tamper: 50,
        replay: 20,
        forged: 20,
        byzantine_doc: 80,
        duplicate: 0,
        retry_after: 250,
        outage_permille: 0,
    };
    p.net.outage_permille = 80;
    p.disk = DiskRates { fail_set: 60, fail_remove: 60, fail_commit: 60, slow: 0, commit_fail_drops_pending: true, hostile_init: 700, fail_keys: vec![] };
    p.bad_url_permille = 80;
    p.url_variants = true;
    p.clock_jump_permille = 600;
    p.wall_init = [4, 2, 2, 1];
    p.crash_permille = 150;
    p.metrics_err_permille = 100;
    p.installer.reboot = [30, 40, 30];
    p.policy.reboot_allowed_permille = 300;
    p.next_delays_s = vec![0, 1, 60, 3600, 18000, 4_000_000_000];
    p.srv.big_size_permille = 300;
    p.neighbour_permille = 200;
    p
}

fn c14_batches(tier: &str) -> Vec<Batch> {
    let mut d = c14_profile();
    d.name = "c14-diskdiff".into();
    d.max_lifetimes = 1;
    d.crash_permille = 0;
    d.disk = DiskRates { fail_set: 150, fail_remove: 150, fail_commit: 150, slow: 0, commit_fail_drops_pending: true, hostile_init: 200, fail_keys: vec![] };
    d.clock_jump_permille = 100;
    d.wall_init = [1, 0, 0, 0];
    d.net.none = 700;
    d.installer.reboot = [0, 60, 40];
    d.srv.app_outcome = [30, 60, 4, 3, 3];
    vec![
        Batch { name: "c14-hostile".into(), profile: c14_profile(), runs: scale(tier, 15_000, 400_000), exec: exec_c14, strata: None },
        Batch { name: "c14-diskdiff".into(), profile: d, runs: scale(tier, 8_000, 200_000), exec: exec_c14_diff, strata: Some(c14_strata) },
    ]
}

/// strata: all storage operations fail / only commits fail / only sets fail / seeded mix
fn c14_strata(i: u64) -> Vec<(String, u64)> {
    let _ = i;
    vec![]
}

fn exec_c17(p: &Profile, cfg: &RunCfg) -> (RunOut, MonOut) {
    let (out, _w, _s) = run_sm(p, cfg);
    let mon = c17::monitor(&out);
    (out, mon)
}

pub fn c17_profile() -> Profile {
    let mut p = Profile::base("c17");
    p.server = ServerKind::Mock;
    p.mode = Mode::Either;
    p.max_checks = 4;
    p.apps_max = 3;
    p.url_variants = true;
    p.cup_permille = 600;
    p.policy.params_no_disable = true;
    p.policy.check = [90, 10, 0, 0, 0];
    // no reboot waits: ping-only requests are outside the stated class
    p.policy.reboot_needed_permille = 0;
    p.admin_reconfigs = 2;
    p.key_server = [65, 35, 0, 0];
    p.net = NetRates::clean();
    p.net.none = 950;
    p.net.transport = 50;
    p.next_delays_s = vec![0, 1, 60];
    p
}

fn c17_batches(tier: &str) -> Vec<Batch> {
    vec![Batch { name: "c17-main".into(), profile: c17_profile(), runs: scale(tier, 12_000, 300_000), exec: exec_c17, strata: None }]
}

fn exec_c18(p: &Profile, cfg: &RunCfg) -> (RunOut, MonOut) {
    let (out, _w, _s) = run_sm(p, cfg);
    let mon = c18::monitor(&out);
    (out, mon)
}

pub fn c18_profile() -> Profile {
    let mut p = Profile::base("c18");
    p.mode = Mode::Start;
    p.max_checks = 3;
    p.max_lifetimes = 4;
    p.apps_max = 3;
    p.system_app_nonzero_permille = 500;
    p.crash_permille = 350;
    p.crash_horizon = 260;
    p.net = NetRates::clean();
    p.net.none = 900;
    p.net.transport = 60;
    p.net.status = 40;
    p.srv.app_outcome = [15, 80, 2, 2, 1];
    p.srv.app_list = [85, 15, 0, 0];
    p.srv.manifest_absent_permille = 80;
    p.installer.plan_fail_permille = 40;
    p.installer.app_result = [70, 10, 20];
    p.installer.plan_id_fresh_permille = 250;
    p.installer.reboot = [70, 15, 15];
    p.policy.check = [95, 5, 0, 0, 0];
    p.policy.can_start = [90, 5, 5];
    p.policy.reboot_needed_permille = 800;
    p.policy.reboot_allowed_permille = 600;
    p.reboot_version = [3, 1];
    // wall-clock jumps between lifetimes (across the reboot) and, since the third seed wave,
    // while running: a machine that starts with the wall clock behind the recorded finish time
    // must retry its waited-for-reboot report once the clock has been stepped forward
    p.clock_jump_permille = 300;
    p.clock_classes = [2, 2, 0, 1, 0];
    p.next_delays_s = vec![0, 1, 60, 3600];
    p.latency = [3, 5, 2];
    // slow storage: time passes between a machine's start and its report
    p.disk.slow = 300;
    p
}

/// Directed schedule for the delayed waited-for-reboot report: install, reboot into the target
/// with the wall clock stepped back 72 h, a second install in that lifetime whose reboot call
/// returns, a forward step of 76 h at a swept point, a crash at a swept point, and possibly a
/// power cycle into the second target.  Everything not listed stays seeded.
fn delayed_report(i: u64) -> Vec<(String, u64)> {
    let kv = |k: &str, v: u64| (k.to_string(), v);
    vec![
        kv("setup/napps", 0),
        kv("crash/enabled", 0),
        kv("L0/http#0/app#0/outcome", 1),
        kv("L0/policy.rebootneeded#0/answer", 1),
        kv("L0/policy.rebootallowed#0/answer", 1),
        kv("L0/reboot#0/behaviour", 0),
        kv("L0/reboot.walljump", 1),
        kv("L0/reboot.walljump.kind", 1),
        kv("L0/reboot.version", 0),
        kv("L1/http#0/app#0/outcome", 1),
        kv("L1/http#0/app#0/mver", 2 * (i % 2)),
        kv("L1/policy.rebootneeded#0/answer", (i / 2) % 2),
        kv("L1/policy.rebootallowed#0/answer", 1),
        kv("L1/reboot#0/behaviour", 1),
        kv("setup/clock_jumps", 1),
        kv("setup/clock_jumps.n", 0),
        kv("setup/clock_jump#0/kind", 0),
        kv("setup/clock_jump#0/v", 3),
        kv("setup/clock_jump#0/at", 10 + ((i / 4) % 150)),
        kv("L1/crash/enabled", 1),
        kv("L1/crash/early", 1),
        kv("L1/crash/at", 40 + (i / 600) % 200),
        kv("L1/crash.boots_target", 0),
    ]
}

fn c18_batches(tier: &str) -> Vec<Batch> {
    let mut e = c18_profile();
    e.name = "c18-crashenum".into();
    e.crash_horizon = CRASH_K;
    // a device that boots with its wall clock behind (stepped back across the reboot) and gets
    // its time later: the waited-for-reboot report must be retried on a later trip
    let mut r = c18_profile();
    r.name = "c18-clockstep".into();
    r.clock_jump_permille = 1000;
    r.clock_classes = [3, 2, 0, 0, 0];
    r.policy.reboot_allowed_permille = 900;
    r.installer.reboot = [90, 5, 5];
    r.reboot_version = [9, 1];
    r.max_checks = 4;
    // a partial storage fault: the first-seen time cannot be written (plan id rollback)
    let mut f = c18_profile();
    f.name = "c18-fsfault".into();
    f.disk.fail_set = 350;
    f.disk.fail_keys = vec!["update_first_seen_time".to_string()];
    f.crash_permille = 0;
    f.installer.plan_id_fresh_permille = 500;
    f.installer.app_result = [40, 10, 50];
    f.max_checks = 5;
    let mut dl = c18_profile();
    dl.name = "c18-delayed".into();
    dl.clock_jump_permille = 1000;
    dl.clock_classes = [3, 2, 0, 0, 0];
    dl.max_checks = 5;
    vec![
        Batch { name: "c18-delayed".into(), profile: dl, runs: scale(tier, 6_000, 120_000), exec: exec_c18, strata: Some(delayed_report) },
        Batch { name: "c18-fsfault".into(), profile: f, runs: scale(tier, 5_000, 120_000), exec: exec_c18, strata: None },
        Batch { name: "c18-clockstep".into(), profile: r, runs: scale(tier, 6_000, 150_000), exec: exec_c18, strata: None },
        Batch { name: "c18-main".into(), profile: c18_profile(), runs: scale(tier, 15_000, 400_000), exec: exec_c18, strata: None },
        Batch { name: "c18-crashenum".into(), profile: e, runs: scale(tier, 15 * CRASH_K, 800 * CRASH_K), exec: exec_c18, strata: Some(crash_enum) },
    ]
}

fn exec_c19_ctx(p: &Profile, cfg: &RunCfg) -> (RunOut, MonOut) {
    let (out, _w, _s) = run_sm(p, cfg);
    let mut mon = c08::run(&out, "C19");
    c19::run(&out, &mut mon);
    (out, mon)
}
fn exec_c19_install(p: &Profile, cfg: &RunCfg) -> (RunOut, MonOut) {
    let (out, _w, _s) = run_sm(p, cfg);
    let mut mon = c18::run(&out, "C19", 0);
    // only the rules about stored times belong to C19 (the crash window between report and
    // clear is C18's known finding)
    mon.violations.retain(|v| !v.site.starts_with("double-report") && (v.rule == "C19.R1" || v.detail.contains("duration")));
    c19::run(&out, &mut mon);
    (out, mon)
}

fn c19_batches(tier: &str) -> Vec<Batch> {
    let mut a = c08_profile();
    a.name = "c19-context".into();
    a.wall_init = [2, 4, 1, 4];
    // steps into and out of the unrepresentable range while running: a stored ordinary time
    // followed by one that does not fit (and the converse)
    a.clock_jump_permille = 450;
    a.clock_classes = [2, 3, 1, 4, 2];
    a.disk.hostile_init = 500;
    a.net.none = 600;
    a.net.transport = 150;
    a.net.status = 100;
    let mut b = c18_profile();
    b.name = "c19-install".into();
    b.wall_init = [1, 4, 0, 4];
    b.clock_jump_permille = 400;
    b.clock_classes = [2, 2, 1, 1, 2];
    b.crash_permille = 150;
    vec![
        Batch { name: "c19-context".into(), profile: a, runs: scale(tier, 12_000, 300_000), exec: exec_c19_ctx, strata: None },
        Batch { name: "c19-install".into(), profile: b, runs: scale(tier, 10_000, 200_000), exec: exec_c19_install, strata: None },
    ]
}

fn exec_c15(p: &Profile, cfg: &RunCfg) -> (RunOut, MonOut) {
    let (out, _w, _s) = run_sm(p, cfg);
    let mon = c15::monitor(&out);
    (out, mon)
}
fn exec_c16(p: &Profile, cfg: &RunCfg) -> (RunOut, MonOut) {
    let (out, _w, _s) = run_sm(p, cfg);
    let mon = c16::monitor(&out);
    (out, mon)
}

fn c15_batches(tier: &str) -> Vec<Batch> {
    let mut p = c04_profile();
    p.name = "c15".into();
    p.apps_max = 4;
    p.dup_app_permille = 120;
    p.preset_permille = 400;
    p.extra_fields_permille = 500;
    p.policy.params_vary = 400;
    p.url_variants = true;
    p.bad_url_permille = 0;
    p.clients_max = 2;
    p.requests_max = 2;
    p.installer.reboot = [0, 60, 40];
    p.policy.reboot_allowed_permille = 300;
    p.cup_permille = 300;
    p.net.none = 800;
    let d = Profile::base("c15-direct");
    vec![
        Batch { name: "c15-main".into(), profile: p, runs: scale(tier, 15_000, 300_000), exec: exec_c15, strata: None },
        Batch { name: "c15-direct".into(), profile: d, runs: scale(tier, 30_000, 600_000), exec: crate::builder::run_builder, strata: None },
    ]
}
fn c16_batches(tier: &str) -> Vec<Batch> {
    let mut p = c04_profile();
    p.name = "c16".into();
    p.cup_permille = 0;
    p.apps_max = 3;
    p.max_checks = 3;
    p.net = NetRates {
        none: 400,
        transport: 10,
        timeout: 0,
        user: 0,
        drop_response: 0,
        status: 20,
        body_garbage: 120,
        body_bitflip: 200,
        body_truncate: 80,
        etag_tamper: 0,
        replay: 30,
        forged: 0,
        byzantine_doc: 140,
        duplicate: 0,
        retry_after: 30,
        outage_permille: 0,
    };
    p.srv.app_outcome = [25, 60, 5, 5, 5];
    p.srv.big_size_permille = 400;
    p.srv.extra_attrs_permille = 350;
    p.srv.xssi_prefix_permille = 300;
    p.installer.plan_fail_permille = 30;
    p.policy.can_start = [70, 15, 15];
    vec![Batch { name: "c16-main".into(), profile: p, runs: scale(tier, 20_000, 400_000), exec: exec_c16, strata: None }]
}

fn exec_c10(p: &Profile, cfg: &RunCfg) -> (RunOut, MonOut) {
    let (out, _w, _s) = run_sm(p, cfg);
    let mon = c10::monitor(&out);
    (out, mon)
}

fn c10_batches(tier: &str) -> Vec<Batch> {
    let mut p = c04_profile();
    p.name = "c10".into();
    p.apps_max = 4;
    p.net = NetRates {
        none: 600,
        transport: 70,
        timeout: 30,
        user: 20,
        drop_response: 30,
        status: 80,
        body_garbage: 60,
        body_bitflip: 0,
        body_truncate: 0,
        etag_tamper: 50,
        replay: 20,
        forged: 50,
        byzantine_doc: 50,
        duplicate: 0,
        retry_after: 30,
        outage_permille: 0,
    };
    p.srv.app_outcome = [25, 60, 5, 5, 5];
    p.srv.app_list = [40, 20, 15, 25];
    p.srv.manifest_absent_permille = 200;
    p.installer.plan_fail_permille = 120;
    p.installer.app_result = [50, 25, 25];
    p.policy.can_start = [60, 20, 20];
    p.bad_url_permille = 0;
    // the embedder changes the shared app set (channel hint and version of its first app), also
    // while an install is under way: the reports of that check speak of the app as the check found it
    p.neighbour_permille = 400;
    p.neighbour_mutates_permille = 800;
    p.neighbour_bumps_version = true;
    vec![Batch { name: "c10-main".into(), profile: p, runs: scale(tier, 20_000, 400_000), exec: exec_c10, strata: None }]
}

fn exec_c13(p: &Profile, cfg: &RunCfg) -> (RunOut, MonOut) {
    let (out, _w, _s) = run_sm(p, cfg);
    let mon = c13::monitor(&out);
    (out, mon)
}

fn c13_batches(tier: &str) -> Vec<Batch> {
    let mut p = c11_profile();
    p.name = "c13-sm".into();
    p.lazy_consumer_permille = 400;
    p.spurious_poll_permille = 150;
    p.latency = [5, 3, 2];
    p.installer.max_progress = 6;
    p.installer.cancel_progress_permille = 150;
    p.installer.concurrent_progress_permille = 150;
    p.installer.step_nowait_permille = 400;
    p.observer_reads_storage_permille = 150;
    p.disk.slow = 150;
    p.net.retry_after = 250;
    p.neighbour_permille = 300;
    p.srv.app_outcome = [25, 65, 4, 3, 3];
    p.drop_stream_permille = 0;
    p.drop_handles_permille = 50;
    vec![
        Batch { name: "c13-generator".into(), profile: Profile::base("c13-generator"), runs: scale(tier, 60_000, 2_000_000), exec: crate::gen::run_gen, strata: None },
        Batch { name: "c13-sm".into(), profile: p, runs: scale(tier, 12_000, 300_000), exec: exec_c13, strata: None },
    ]
}

fn c01_batches(tier: &str) -> Vec<Batch> {
    vec![Batch { name: "c01-main".into(), profile: Profile::base("c01"), runs: scale(tier, 20_000, 600_000), exec: crate::cup::run_cup, strata: None }]
}

fn exec_c08(p: &Profile, cfg: &RunCfg) -> (RunOut, MonOut) {
    let (out, _w, _s) = run_sm(p, cfg);
    let mon = c08::monitor(&out);
    (out, mon)
}
fn exec_c09(p: &Profile, cfg: &RunCfg) -> (RunOut, MonOut) {
    let (out, _w, _s) = run_sm(p, cfg);
    let mon = c09::monitor(&out);
    (out, mon)
}

pub fn c08_profile() -> Profile {
    let mut p = Profile::base("c08");
    p.mode = Mode::Either;
    p.max_checks = 4;
    p.max_lifetimes = 3;
    p.crash_permille = 400;
    p.crash_horizon = 250;
    p.probes = true;
    p.net = NetRates {
        none: 500,
        transport: 80,
        timeout: 30,
        user: 20,
        drop_response: 30,
        status: 80,
        body_garbage: 20,
        body_bitflip: 0,
        body_truncate: 0,
        etag_tamper: 40,
        replay: 20,
        forged: 40,
        byzantine_doc: 80,
        duplicate: 0,
        retry_after: 120,
        outage_permille: 0,
    };
    p.bad_url_permille = 20;
    p.srv.app_outcome = [40, 50, 4, 3, 3];
    p.installer.plan_fail_permille = 200;
    p.installer.reboot = [15, 50, 35];
    p.policy.reboot_allowed_permille = 200;
    p.next_delays_s = vec![0, 1, 60, 3600];
    p.wall_init = [6, 1, 1, 2];
    p.disk.slow = 150;
    p.neighbour_permille = 150;
    // wall-clock steps while running (forwards and backwards; the extreme classes stay in wall_init)
    p.clock_jump_permille = 300;
    p.clock_classes = [2, 3, 0, 1, 0];
    p
}

pub fn c09_profile() -> Profile {
    let mut p = c08_profile();
    p.name = "c09".into();
    p.apps_max = 4;
    p.preset_permille = 350;
    p.srv.app_list = [40, 20, 20, 20];
    p.srv.cohort_field = [34, 33, 33];
    p.srv.daystart = [20, 15, 25, 40];
    p.wall_init = [1, 0, 0, 0];
    // the embedder changes an app's channel hint through the shared app set, also while a check is under way
    p.neighbour_permille = 400;
    p.neighbour_mutates_permille = 700;
    p
}

/// Fault enumeration over sampled histories: run index i re-runs history i/K with the crash
/// placed at interaction 1 + i%K (K = 240 covers the interactions of two to three checks).
const CRASH_K: u64 = 240;
fn crash_enum(i: u64) -> Vec<(String, u64)> {
    vec![("__seed_index".to_string(), i / CRASH_K), ("crash/enabled".to_string(), 1), ("crash/at".to_string(), i % CRASH_K)]
}

fn c08_batches(tier: &str) -> Vec<Batch> {
    let mut v = vec![Batch { name: "c08-main".into(), profile: c08_profile(), runs: scale(tier, 12_000, 300_000), exec: exec_c08, strata: None }];
    let mut e = c08_profile();
    e.name = "c08-crashenum".into();
    e.crash_horizon = CRASH_K;
    v.push(Batch { name: "c08-crashenum".into(), profile: e, runs: scale(tier, 20 * CRASH_K, 1000 * CRASH_K), exec: exec_c08, strata: Some(crash_enum) });
    v
}
fn c09_batches(tier: &str) -> Vec<Batch> {
    let mut e = c09_profile();
    e.name = "c09-crashenum".into();
    e.crash_horizon = CRASH_K;
    vec![
        Batch { name: "c09-main".into(), profile: c09_profile(), runs: scale(tier, 12_000, 300_000), exec: exec_c09, strata: None },
        Batch { name: "c09-crashenum".into(), profile: e, runs: scale(tier, 15 * CRASH_K, 600 * CRASH_K), exec: exec_c09, strata: Some(crash_enum) },
    ]
}

fn adversarial_net() -> NetRates {
    NetRates {
        none: 450,
        transport: 40,
        timeout: 20,
        user: 10,
        drop_response: 20,
        status: 60,
        body_garbage: 40,
        body_bitflip: 60,
        body_truncate: 30,
        etag_tamper: 100,
        replay: 70,
        forged: 100,
        byzantine_doc: 0,
        duplicate: 10,
        retry_after: 150,
        outage_permille: 0,
    }
}

pub fn c02_profile() -> Profile {
    let mut p = Profile::base("c02");
    p.mode = Mode::Either;
    p.cup_permille = 1000;
    p.max_checks = 4;
    p.net = adversarial_net();
    p.srv.app_outcome = [30, 55, 5, 5, 5];
    p.installer.reboot = [0, 60, 40];
    p.policy.reboot_allowed_permille = 250;
    p.next_delays_s = vec![0, 1, 60, 3600];
    p.lateness = [8, 1, 1, 0];
    p.probes = false;
    p
}

pub fn c06_profile() -> Profile {
    let mut p = Profile::base("c06");
    p.mode = Mode::Either;
    p.max_checks = 2;
    p.apps_max = 2;
    p.net = NetRates {
        none: 300,
        transport: 150,
        timeout: 80,
        user: 60,
        drop_response: 50,
        status: 200,
        body_garbage: 30,
        body_bitflip: 0,
        body_truncate: 0,
        etag_tamper: 40,
        replay: 0,
        forged: 50,
        byzantine_doc: 40,
        duplicate: 0,
        retry_after: 120,
        outage_permille: 0,
    };
    p.bad_url_permille = 30;
    p.policy.check = [95, 5, 0, 0, 0];
    // the embedder changes an app's channel hint while a check may be between two attempts
    p.neighbour_permille = 400;
    p.neighbour_mutates_permille = 800;
    p.net.outage_permille = 40;
    // the wall clock is stepped while attempts are in flight (the response-time samples are monotonic)
    p.clock_jump_permille = 300;
    p.clock_classes = [2, 3, 0, 1, 0];
    p
}

pub fn c07_profile() -> Profile {
    let mut p = Profile::base("c07");
    p.mode = Mode::Either;
    p.max_checks = 4;
    p.max_lifetimes = 2;
    p.crash_permille = 250;
    p.crash_horizon = 150;
    p.probes = true;
    p.net = NetRates {
        none: 550,
        transport: 60,
        timeout: 20,
        user: 10,
        drop_response: 20,
        status: 180,
        body_garbage: 0,
        body_bitflip: 0,
        body_truncate: 0,
        etag_tamper: 50,
        replay: 30,
        forged: 50,
        byzantine_doc: 30,
        duplicate: 0,
        retry_after: 450,
        outage_permille: 0,
    };
    p.srv.app_outcome = [40, 50, 4, 3, 3];
    p.installer.reboot = [0, 60, 40];
    p.policy.reboot_allowed_permille = 200;
    p.next_delays_s = vec![0, 1, 60, 3600];
    p.disk.slow = 150;
    // another task of the embedder holds the shared storage for a while
    p.neighbour_permille = 350;
    p
}

fn c02_batches(tier: &str) -> Vec<Batch> {
    vec![Batch { name: "c02-main".into(), profile: c02_profile(), runs: scale(tier, 12_000, 300_000), exec: exec_c02, strata: None }]
}
fn c03_batches(tier: &str) -> Vec<Batch> {
    let mut p = c02_profile();
    p.name = "c03".into();
    p.url_variants = true;
    p.net.none = 800;
    // restarts: a handler is created per lifetime, nonces stay fresh across them
    p.max_lifetimes = 3;
    p.crash_permille = 300;
    p.crash_horizon = 150;
    vec![Batch { name: "c03-main".into(), profile: p, runs: scale(tier, 12_000, 300_000), exec: exec_c03, strata: None }]
}
fn c06_strata(i: u64) -> Vec<(String, u64)> {
    // stratify the three per-attempt adversary choices of the first check over the alphabet
    let a = [0u64, 1, 2, 3, 4, 5, 9, 11, 12, 6];
    let n = a.len() as u64;
    vec![
        ("L0/http#0/fault".to_string(), a[(i % n) as usize]),
        ("L0/http#1/fault".to_string(), a[((i / n) % n) as usize]),
        ("L0/http#2/fault".to_string(), a[((i / (n * n)) % n) as usize]),
    ]
}
fn c06_batches(tier: &str) -> Vec<Batch> {
    let mut pe = c06_profile();
    pe.name = "c06-entropy".into();
    pe.policy.min_wait_permille = 0;
    pe.max_checks = 1;
    pe.net.transport = 500;
    // the commit that persists a server-dictated interval fails: the interval is in force all the same
    let mut cf = c06_profile();
    cf.name = "c06-commitfault".into();
    cf.disk.fail_commit = 400;
    cf.net.retry_after = 500;
    cf.net.status = 400;
    vec![
        Batch { name: "c06-commitfault".into(), profile: cf, runs: scale(tier, 5_000, 100_000), exec: exec_c06, strata: None },
        Batch { name: "c06-main".into(), profile: c06_profile(), runs: scale(tier, 20_000, 400_000), exec: exec_c06, strata: Some(c06_strata) },
        Batch { name: "c06-entropy".into(), profile: pe, runs: scale(tier, 300, 3_000), exec: exec_c06_entropy, strata: None },
    ]
}
fn c07_batches(tier: &str) -> Vec<Batch> {
    let mut off = c07_profile();
    off.name = "c07-nocup".into();
    off.cup_permille = 0;
    let mut on = c07_profile();
    on.name = "c07-cup".into();
    on.cup_permille = 1000;
    // a partial storage fault: writes and removals of one neighbouring key fail; the interval must
    // still reach storage and survive the restart
    let mut pf = c07_profile();
    pf.name = "c07-partialfault".into();
    pf.disk.fail_set = 300;
    pf.disk.fail_remove = 300;
    pf.disk.fail_keys = vec!["last_update_time".to_string()];
    vec![
        Batch { name: "c07-partialfault".into(), profile: pf, runs: scale(tier, 5_000, 100_000), exec: exec_c07, strata: None },
        Batch { name: "c07-nocup".into(), profile: off, runs: scale(tier, 10_000, 200_000), exec: exec_c07, strata: None },
        Batch { name: "c07-cup".into(), profile: on, runs: scale(tier, 6_000, 150_000), exec: exec_c07, strata: None },
    ]
}

fn def(id: &'static str, rule_text: &'static str, assumptions: Vec<&'static str>, batches: fn(&str) -> Vec<Batch>) -> PropDef {
    PropDef { id, level: "exploration", rule_text, assumptions, real_code: REAL, stub_code: STUB, batches }
}

pub fn all() -> Vec<PropDef> {
    vec![
        def("C01", "two-party exchanges (real RequestBuilder + StandardCupv2Handler vs independent signer) with one in-flight mutation each (bit flips of body / retained request / nonce, key id change, hex-digit flips of either ETag half at head and tail, swap, truncation, re-signing, digest re-composition, arbitrary and random ETag text, re-wrapping, replay for another request); verdict compared with the independent reference verifier in both directions; distinct = (mutation kind, verdict, ETag encoding)", vec!["p256/ecdsa/sha2/hex define 'valid signature' (ECDSA (r, n-s) malleability is, consistently, valid)", "http::HeaderValue defines which ETag bytes can arrive at all"], c01_batches),
        def("C02", "seeded whole-flow runs with the real CUP handler; at every request position the adversary may deliver a forgery (unsigned, attacker-signed, tampered body/ETag, replay, forged status with X-Retry-After); a case is one unauthenticated exchange (or authentic one for the dual rule); distinct = (tamper kind, request kind, header present)", vec!["ground truth 'authentic' comes from the independent reference verifier (p256/sha2 trusted)", "a replay is never authentic because nonces and request ids are fresh (checked by C03/C06)"], c02_batches),
        def("C03", "every request sent in whole-flow CUP runs over service-URL variants (path, query, port, IPv6 literal, trailing ?); a case is one request; distinct = (configured URL, query pair count)", vec!["independent string-level URL split"], c03_batches),
        def("C05", "policy answer sequences (5 check decisions with varying request parameters, 3 install decisions, reboot needed/allowed) interleaved with timers and control requests, including invalid app sets; a case is one request / decision; distinct = parameter vectors and decision kinds", vec!["pings during a reboot wait are scheduled background contacts with fixed parameters (not covered by the parameter rule)"], c05_batches),
        def("C06", "per-attempt outcome sequences (stratified over the adversary alphabet^3 for the first check) with poll-interval interplay; entropy differential re-runs for jitter; a case is one completed check; distinct = attempt-outcome sequence x initial poll state", vec!["X-Retry-After reading per statement; '+N' either way"], c06_batches),
        def("C07", "header-value classes x status x request kind with probe restarts after every commit and real crashes; a case is one processed response; distinct = (old value, new value, status, request kind)", vec!["'+N' and duplicate headers: any listed reading accepted", "commit is atomic; reads see uncommitted writes"], c07_batches),
        def("C13", "(a) random generator programs over {yield, yield-all(k), self-wake, await external operation, drop the yield handle, return R} under random consumer schedules {poll when woken, dawdle, spurious poll} through generate / into_yielded / into_complete / into_try_stream; (b) the state machine under lazy consumers, spurious polls and late completions: emission precedes the code after it, progress values in order before the outcome, no halt with nothing pending; distinct = (program shape, adaptor, consumer kind)", vec!["into_complete discards items inside the adaptor, so item receipt is not observable there", "a halt is judged only when neither the stream was dropped nor ended"], c13_batches),
        def("C14", "hostile inputs combined with the flow: arbitrary/garbage/bit-flipped/truncated response bytes, statuses, header values, hostile initial storage (wrong types, negatives, i64/u32 extremes for every key), malformed service URLs, wall-clock jumps (backwards, pre-epoch, sub-microsecond, far future), metrics-sink errors, crashes, with a formatting tracing subscriber installed; plus differential re-runs (same seed, storage failures live vs off) comparing requests sent and events announced; a case is one run; distinct = set of fault kinds that fired", vec!["policy and installer answers conform to their contracts", "panic attribution: the executor marks when library code is running; a panic raised inside a dependency while the mark is set counts", "differential rule is evaluated within one lifetime (what is stored legitimately differs afterwards)"], c14_batches),
        def("C15", "in situ: every request sent by whole-flow runs (update checks, retries, event reports, pings; 1-4 apps with presets, fingerprints, extra fields; varying request parameters; on-demand requests) is decoded at the simulated server and compared with an independently written encoder applied to the model state; distinct = (request kind, app count, parameters). Second harness (c15-direct): RequestBuilder driven directly with drawn operation sequences {add update check, add ping, add event, set ids, build}, builds in mid-sequence and twice, each built request compared as a JSON value with an independent encoder of the operations so far.", vec!["app state is taken from the arguments the policy engine received (their correctness is C09's subject)", "version strings are rebuilt from the configured components, not from the library's Display"], c15_batches),
        def("C16", "in situ, CUP off: documents from the independent v3 response-grammar generator (apps in any order, unknown ids, all statuses, cohort fields absent vs empty, daystart forms, urls x packages, sizes up to 2^64-1, extension attributes, optional anti-XSSI prefix), byzantine documents (required field removed / wrongly typed), and garbage, truncated, bit-flipped and deeply nested bodies reach the parser through the state machine; the announced decode is compared with the document (or with an independent reading of the bytes); documents nested up to 10^6 levels at the positions where the grammar accepts arbitrary JSON are parsed in child processes (a stack overflow aborts the process); distinct = (tamper kind, grammaticality, announced)", vec!["serde_json::Value as the independent reading of arbitrary bytes", "only unarguably required fields are removed by the byzantine mutations"], c16_batches),
        def("C17", "the real client (RequestBuilder, CUP handler, parser, whole state machine) against the real mock_omaha_server::handle_request called in-process; service-URL variants, 1-3 apps, key configurations with latest/historical ids on either side, per-app response kinds, forced ETag, admin reconfigurations racing with exchanges, a direct request with update check and event on one app, a second connection stalled in the middle of its body while the request must be answered; a case is one answered request; distinct = (configured kinds, cup, url)", vec!["requests outside the stated class (ping-only) are not sent in this profile", "the transport seam converts the absolute-form URI to origin-form, as an HTTP client does"], c17_batches),
        def("C18", "histories of install attempts (plan ids stable or fresh, per-app results, system app at any index, manifest version present or not) with crashes at drawn interactions, reboots into the target or another version and restart delays; wall-clock steps across reboots and inside a lifetime, partial storage faults on the first-seen time, a directed batch for a report delayed past another install; metrics, call order and restart behaviour compared with a model of first-seen time, consecutive failed installs and the pending-reboot record (the report is retried on every trip of the main loop until the clocks allow it); a case is one install or one restart; distinct = outcome signature", vec!["durations derived from a stored (microsecond) time are compared with 1 us tolerance; which clock reading of a trip is the loop-top one is not observable: a report must match some reading of its trip", "an attempt cut by a crash may count or not", "when the system app is not part of the update the target version on record is not judged"], c18_batches),
        def("C19", "persistence path only: wall clocks at nanosecond granularity before/after the epoch, at and beyond the i64-microsecond limits, and hostile stored integers over the whole i64 range; every time the library stores (last contact, first seen, finish) must come back after a restart as the instant truncated toward the epoch at microsecond precision, be dropped exactly when it does not fit, and be presented and re-persisted unchanged when it was read from storage; exact (0 ns tolerance) duration comparisons; steps into and out of the unrepresentable range while running; R5: the simulated timer asks is_after_or_eq_any at arm and fire under wall-clock steps; a case is one stored time round trip or one comparison", vec!["add, subtract, complete-with, destructure and truncate_submicrosecond_walltime are pure functions reached by no simulated seam: not claimed (DESIGN.md 6.C19)"], c19_batches),
        def("C10", "multi-app responses in any order with unknown ids and missing manifests x policy decisions x per-app installer result vectors x delivery outcome of each individual report (ok, transport error, HTTP error, forged); the sequence and contents of event-bearing requests of each check are compared with the path's prescription, lost-event accounting per report; a case is one completed check; distinct = (path, report sizes, installer results)", vec!["an event report with an empty app list (only unknown ids offered) may be sent or not", "lost-event count for a single-event report covering several apps: 1 or one per app"], c10_batches),
        def("C11", "up to 4 handle clones issuing up to 6 requests released inside in-flight operations (timer waits, HTTP exchanges, policy questions, plan creation, install steps, reboot wait) with batch readiness so select! order (a seeded decision) matters; handles and stream dropped at drawn moments; interval-style oracle on global sequence numbers; a case is one request; distinct = (reply, options)", vec!["a request left unanswered when the run is cut is not judged", "wake-up without timer is judged in a profile whose timers are >= 10 h away and whose operation latencies are < 1 min"], c11_batches),
        def("C12", "check timings over {wall, monotonic, both} x {minimum wait or none}; timers fire late and in any order; throttled iterations; reboot waits with pings; a case is one wait; distinct = timing shape", vec!["timers never fire early"], c12_batches),
        def("C08", "histories of checks and reboot-wait pings over all outcome classes on a disk with a volatile write cache; probe restart after every commit; real crashes at drawn interactions with rebuild; a case is one check/ping outcome; distinct = (ground-truth outcome, announced result class)", vec!["commit is atomic; reads see uncommitted writes (Storage contract)", "which clock reading inside the check becomes the last-contact time is left open"], c08_batches),
        def("C09", "responses carrying every subset of cohort fields (absent vs empty) and any daystart for any subset/order of a 1-4 app set plus unknown ids, interleaved with failed checks, pings, crashes and embedder presets; probe restarts at every commit; a case is one successful check or ping; distinct = (apps, named, changed, daystart present)", vec!["server documents carry unique app ids"], c09_batches),
        PropDef {
        id: "C04",
        level: "exploration",
        rule_text: "seeded runs of the real state machine (start and one-shot) against the reference server over transport/HTTP/parse/policy/installer outcome products; a case is one completed update check; non-trivial = distinct (ground-truth outcome, offered subset, policy decision, installer result vector) signature",
        assumptions: vec![
            "installer returns one result per offered app in response order (trait contract)",
            "server documents carry unique app ids",
            "policy questions always terminate",
        ],
        real_code: REAL,
        stub_code: STUB,
        batches: c04_batches,
    }]
}
