//! History records: plain data observed at the simulated environment's seams.
//! Nothing here is derived from library-internal state.

use serde::Serialize;
use serde_json::Value;
use std::collections::BTreeMap;

#[derive(Clone, Debug, PartialEq, Eq, Serialize, Default)]
pub struct TimeRec {
    /// wall-clock component, ns since the UNIX epoch (negative = before)
    #[serde(serialize_with = "ser_opt_i128")]
    pub wall: Option<i128>,
    /// monotonic component, ns offset from the process-wide simulator base
    pub mono: Option<i64>,
}

fn ser_opt_i128<S: serde::Serializer>(v: &Option<i128>, s: S) -> Result<S::Ok, S::Error> {
    match v {
        Some(x) => s.serialize_str(&x.to_string()),
        None => s.serialize_none(),
    }
}
fn ser_u128<S: serde::Serializer>(v: &u128, s: S) -> Result<S::Ok, S::Error> {
    if *v <= u64::MAX as u128 {
        s.serialize_u64(*v as u64)
    } else {
        s.serialize_str(&v.to_string())
    }
}
fn ser_opt_u128<S: serde::Serializer>(v: &Option<u128>, s: S) -> Result<S::Ok, S::Error> {
    match v {
        Some(x) => ser_u128(x, s),
        None => s.serialize_none(),
    }
}
fn ser_i128<S: serde::Serializer>(v: &i128, s: S) -> Result<S::Ok, S::Error> {
    s.serialize_str(&v.to_string())
}

#[derive(Clone, Debug, PartialEq, Eq, Serialize)]
pub struct TimingRec {
    pub time: TimeRec,
    #[serde(serialize_with = "ser_opt_u128")]
    pub min_wait_ns: Option<u128>,
}

#[derive(Clone, Debug, PartialEq, Eq, Serialize, Default)]
pub struct SchedRec {
    pub last_update_time: Option<TimeRec>,
    pub last_update_check_time: Option<TimeRec>,
    pub next_update_time: Option<TimingRec>,
}

#[derive(Clone, Debug, PartialEq, Eq, Serialize, Default)]
pub struct ProtoRec {
    #[serde(serialize_with = "ser_opt_u128")]
    pub poll_ns: Option<u128>,
    pub failures: u32,
    pub proxied: u32,
}

#[derive(Clone, Debug, PartialEq, Eq, Serialize, Default)]
pub struct AppRec {
    pub id: String,
    pub version: String,
    pub fingerprint: Option<String>,
    pub cohort: Option<String>,
    pub cohorthint: Option<String>,
    pub cohortname: Option<String>,
    pub uc: Option<u32>,
    pub extra: BTreeMap<String, String>,
}

#[derive(Clone, Copy, Debug, PartialEq, Eq, Serialize, PartialOrd, Ord)]
pub enum Src {
    OnDemand,
    Scheduled,
}

#[derive(Clone, Debug, PartialEq, Eq, Serialize)]
pub struct ParamsRec {
    pub source: Src,
    pub use_configured_proxies: bool,
    pub disable_updates: bool,
    pub same_version: bool,
}

#[derive(Clone, Debug, PartialEq, Eq, Serialize)]
pub enum StateRec {
    Idle,
    CheckingForUpdates(Src),
    ErrorCheckingForUpdate,
    NoUpdateAvailable,
    InstallationDeferredByPolicy,
    InstallingUpdate,
    WaitingForReboot,
    InstallationError,
}

#[derive(Clone, Debug, PartialEq, Eq, Serialize)]
pub enum ActionRec {
    NoUpdate,
    DeferredByPolicy,
    DeniedByPolicy,
    InstallPlanExecutionError,
    Updated,
}

#[derive(Clone, Debug, PartialEq, Eq, Serialize)]
pub struct AppRespRec {
    pub app_id: String,
    pub cohort: Option<String>,
    pub cohorthint: Option<String>,
    pub cohortname: Option<String>,
    pub uc: Option<u32>,
    pub action: ActionRec,
}

#[derive(Clone, Debug, PartialEq, Eq, Serialize)]
pub enum ErrRec {
    Json,
    HttpBuilder,
    CupDecoration,
    CupValidation,
    HttpTransport,
    HttpStatus(u16),
    ResponseParser,
    InstallPlan,
}

#[derive(Clone, Debug, PartialEq, Serialize)]
pub enum EventRec {
    State(StateRec),
    Schedule(SchedRec),
    Proto(ProtoRec),
    Result(Result<Vec<AppRespRec>, ErrRec>),
    Progress(u32),
    /// the announced response re-encoded as JSON field by field (observation, not the document)
    ServerResponse(Value),
    InstallerError(String),
}

#[derive(Clone, Debug, PartialEq, Eq, Serialize)]
pub enum CheckDecisionRec {
    Ok(ParamsRec),
    OkUpdateDeferred(ParamsRec),
    TooSoon,
    ThrottledByPolicy,
    DeniedByPolicy,
}

impl CheckDecisionRec {
    pub fn params(&self) -> Option<&ParamsRec> {
        match self {
            CheckDecisionRec::Ok(p) | CheckDecisionRec::OkUpdateDeferred(p) => Some(p),
            _ => None,
        }
    }
}

#[derive(Clone, Debug, PartialEq, Eq, Serialize)]
pub enum UpdateDecisionRec {
    Ok,
    Deferred,
    Denied,
}

#[derive(Clone, Debug, PartialEq, Eq, Serialize)]
pub enum PolicyRec {
    ComputeNext {
        apps: Vec<AppRec>,
        sched: SchedRec,
        proto: ProtoRec,
        answer: TimingRec,
    },
    CheckAllowed {
        apps: Vec<AppRec>,
        sched: SchedRec,
        proto: ProtoRec,
        source: Src,
        answer: CheckDecisionRec,
    },
    CanStart {
        plan: String,
        answer: UpdateDecisionRec,
    },
    RebootAllowed {
        source: Src,
        install_result: u64,
        answer: bool,
    },
    RebootNeeded {
        plan: String,
        answer: bool,
    },
}

#[derive(Clone, Debug, PartialEq, Eq, Serialize)]
pub enum TimerArg {
    Until(TimeRec),
    For(#[serde(serialize_with = "ser_u128")] u128),
}

#[derive(Clone, Debug, PartialEq, Eq, Serialize)]
pub enum ReqKind {
    UpdateCheck,
    Event,
    Ping,
    Other,
}

#[derive(Clone, Debug, PartialEq, Eq, Serialize)]
pub enum NetErr {
    Transport,
    Timeout,
    User,
}

#[derive(Clone, Debug, PartialEq, Serialize)]
pub struct DeliveredResp {
    pub status: u16,
    pub headers: Vec<(String, Vec<u8>)>,
    pub body_len: usize,
    pub body_sha: String,
    /// what the adversary did ("none" = untouched)
    pub tamper: String,
    /// ground truth by the independent reference verifier (None when CUP is off / request undecorated)
    pub authentic: Option<bool>,
    /// the genuine server document this response was derived from (None = garbage / no document)
    pub doc: Option<Value>,
    /// whether the delivered body is, by construction, a grammatical v3 response (None = unknown)
    pub grammatical: Option<bool>,
    /// raw bytes kept for small bodies (samples / C16)
    pub body: Vec<u8>,
}

#[derive(Clone, Debug, PartialEq, Eq, Serialize)]
pub enum InstallRes {
    Installed,
    Deferred,
    Failed,
}

#[derive(Clone, Debug, PartialEq, Serialize)]
pub enum InstallerRec {
    CreatePlan {
        params: ParamsRec,
        meta: Option<MetaRec>,
        /// number of apps with an ok update in the response passed
        offered: Vec<String>,
        response: Value,
        body_sha: String,
        signature: Option<String>,
        result: Result<String, ()>,
        /// get_all_full_urls() per offered app, computed by the embedder role
        full_urls: Vec<Vec<String>>,
    },
    PerformInstall {
        plan: String,
    },
    ProgressSent {
        value: u32,
    },
    ProgressReturned {
        value: u32,
    },
    InstallDone {
        plan: String,
        install_result: u64,
        results: Vec<InstallRes>,
    },
    Reboot {
        behaviour: String,
    },
}

#[derive(Clone, Debug, PartialEq, Eq, Serialize)]
pub struct MetaRec {
    pub body_sha: String,
    pub body_len: usize,
    pub key_id: u64,
    pub nonce_hex: String,
}

#[derive(Clone, Debug, PartialEq, Eq, Serialize)]
pub enum DiskVal {
    S(String),
    I(i64),
    B(bool),
}

#[derive(Clone, Debug, PartialEq, Eq, Serialize)]
pub enum DiskOp {
    Get,
    Set(DiskVal),
    Remove,
    Commit,
}

#[derive(Clone, Debug, PartialEq, Eq, Serialize)]
pub enum MetricRec {
    UpdateCheckResponseTime {
        #[serde(serialize_with = "ser_u128")]
        ns: u128,
        successful: bool,
    },
    UpdateCheckInterval {
        #[serde(serialize_with = "ser_u128")]
        ns: u128,
        mono: bool,
        source: Src,
    },
    SuccessfulUpdateDuration(#[serde(serialize_with = "ser_u128")] u128),
    SuccessfulUpdateFromFirstSeen(#[serde(serialize_with = "ser_u128")] u128),
    FailedUpdateDuration(#[serde(serialize_with = "ser_u128")] u128),
    UpdateCheckFailureReason(String),
    RequestsPerCheck { count: u64, successful: bool },
    AttemptsToSuccessfulCheck(u64),
    AttemptsToSuccessfulInstall { count: u64, successful: bool },
    WaitedForRebootDuration(#[serde(serialize_with = "ser_u128")] u128),
    FailedBootAttempts(u64),
    OmahaEventLost { etype: u8, result: u8, errorcode: Option<i32> },
}

#[derive(Clone, Debug, PartialEq, Eq, Serialize)]
pub enum CtlReply {
    Started,
    AlreadyRunning,
    Throttled,
    Gone,
}

#[derive(Clone, Debug, PartialEq, Serialize)]
pub enum Kind {
    LifeStart {
        mode: String,
        os_version: String,
        cup: bool,
        service_url: String,
        presets: Vec<AppRec>,
        system_idx: usize,
        boot: u32,
        key_id: u64,
        /// the version components each app was configured with (independent of the library's Display)
        versions: Vec<Vec<u32>>,
        updater_name: String,
        updater_version: Vec<u32>,
        os: Vec<String>,
    },
    /// stream returned by start()/oneshot_check() is available
    Started,
    LifeEnd {
        why: String,
    },
    Poll {
        task: String,
        ready: bool,
    },
    StreamEnd,
    Event(EventRec),
    Policy(PolicyRec),
    TimerArm {
        id: u64,
        arg: TimerArg,
        deadline_vt: u64,
    },
    TimerFire {
        id: u64,
    },
    /// the components of a deadline as the embedder's timer reads them through the accessors
    /// (`checked_to_system_time`, `checked_to_instant`) and through `destructure`
    TimerParts {
        id: u64,
        destructure: TimeRec,
        accessors: TimeRec,
    },
    /// the library takes the apps of the shared app set for writing (load at start, update from a response)
    AppSetWrite,
    /// the library takes a copy of the apps of the shared app set
    AppSetRead,
    /// a task of the embedder changed an app's cohort hint in the shared app set
    NeighbourMutate {
        app: String,
        hint: String,
        version: Option<Vec<u32>>,
    },
    /// the embedder's timer asks the library whether `deadline` has been reached at `now`
    /// (at arm time and when the timer future resolves)
    TimerCmp {
        id: u64,
        phase: String,
        #[serde(serialize_with = "ser_i128")]
        now_wall: i128,
        now_mono: i64,
        deadline: TimeRec,
        lib: bool,
    },
    OpCancel {
        label: String,
    },
    HttpSend {
        id: u64,
        uri: String,
        method: String,
        headers: Vec<(String, String)>,
        body_json: Option<Value>,
        body_sha: String,
        body_len: usize,
        kind: ReqKind,
    },
    ServerHandled {
        id: u64,
        server: String,
    },
    HttpDeliver {
        id: u64,
        result: Result<DeliveredResp, NetErr>,
    },
    Installer(InstallerRec),
    Disk {
        op: DiskOp,
        key: String,
        ok: bool,
        got: Option<DiskVal>,
    },
    DiskCommitted {
        map: BTreeMap<String, DiskVal>,
    },
    Probe {
        at: String,
        apps: Vec<AppRec>,
        sched: SchedRec,
        proto: ProtoRec,
    },
    Metric(MetricRec),
    CtlInvoke {
        client: u32,
        req: u32,
        source: Src,
    },
    /// the caller dropped the future of a request it had started (no reply will be observed)
    CtlAbandon {
        client: u32,
        req: u32,
    },
    CtlReply {
        client: u32,
        req: u32,
        reply: CtlReply,
    },
    CtlHandleDrop {
        client: u32,
    },
    StreamDrop,
    ClockRead {
        #[serde(serialize_with = "ser_i128")]
        wall: i128,
        mono: i64,
        which: String,
    },
    ClockJump {
        #[serde(serialize_with = "ser_i128")]
        delta: i128,
    },
    Crash {
        at: String,
    },
    Stuck,
    StepLimit,
    MockAnswer {
        id: u64,
        parses: bool,
        own: Option<bool>,
        other: Option<bool>,
        cfg: BTreeMap<String, String>,
        forced_etag: bool,
    },
    MockFailure {
        id: u64,
        what: String,
    },
    /// C17: a request built directly with the client's RequestBuilder (update check + event on
    /// the same app, which the state machine never sends) answered by the mock
    /// an event-only report sent directly while a cohort assertion is configured in the mock
    MockDirectEvent {
        apps: Vec<String>,
        answered_apps: Vec<String>,
        parses: bool,
        failure: Option<String>,
    },
    MockDirect {
        apps: Vec<(String, bool)>,
        doc: Option<Value>,
        parses: bool,
        cfg: BTreeMap<String, String>,
        failure: Option<String>,
    },
    Note(String),
}

#[derive(Clone, Debug, PartialEq, Serialize)]
pub struct Rec {
    pub seq: u64,
    pub life: u32,
    pub vt: u64,
    #[serde(serialize_with = "ser_i128")]
    pub wall: i128,
    pub kind: Kind,
}

pub type History = Vec<Rec>;

/// Canonical JSON (sorted keys) for hashing / comparing.
pub fn canon(v: &Value) -> String {
    fn go(v: &Value, out: &mut String) {
        match v {
            Value::Object(m) => {
                let mut keys: Vec<&String> = m.keys().collect();
                keys.sort();
                out.push('{');
                for (i, k) in keys.iter().enumerate() {
                    if i > 0 {
                        out.push(',');
                    }
                    out.push_str(&serde_json::to_string(k).unwrap());
                    out.push(':');
                    go(&m[*k], out);
                }
                out.push('}');
            }
            Value::Array(a) => {
                out.push('[');
                for (i, x) in a.iter().enumerate() {
                    if i > 0 {
                        out.push(',');
                    }
                    go(x, out);
                }
                out.push(']');
            }
            other => out.push_str(&other.to_string()),
        }
    }
    let mut s = String::new();
    go(v, &mut s);
    s
}

pub fn sha_hex(data: &[u8]) -> String {
    use sha2::{Digest, Sha256};
    hex::encode(Sha256::digest(data))
}

/// Remove the few fields that depend on std's per-process HashMap seed: the library keeps an
/// app's extra fields in a HashMap, so with two or more of them the serialised request bytes
/// (and therefore their digest, the CUP signature over it, and the ETag) differ between
/// processes although the decoded request is identical. Everything else is hashed.
fn scrub(v: &mut Value) {
    match v {
        Value::Object(m) => {
            let is_send = m.contains_key("uri") && m.contains_key("method");
            let is_meta = m.contains_key("nonce_hex");
            if is_send || is_meta {
                m.remove("body_sha");
            }
            m.remove("signature");
            if let Some(Value::Array(hs)) = m.get_mut("headers") {
                for h in hs.iter_mut() {
                    if let Value::Array(pair) = h {
                        if pair.first().and_then(|k| k.as_str()) == Some("etag") && pair.len() == 2 {
                            pair[1] = Value::String("<etag>".into());
                        }
                    }
                }
            }
            for (_, x) in m.iter_mut() {
                scrub(x);
            }
        }
        Value::Array(a) => {
            for x in a.iter_mut() {
                scrub(x);
            }
        }
        _ => {}
    }
}

/// Hash of a whole history (see `scrub` for the only fields left out).
pub fn history_hash(h: &History) -> String {
    use sha2::{Digest, Sha256};
    let mut hasher = Sha256::new();
    for r in h {
        let mut v = serde_json::to_value(r).unwrap();
        scrub(&mut v);
        hasher.update(canon(&v).as_bytes());
        hasher.update(b"\n");
    }
    hex::encode(hasher.finalize())
}
