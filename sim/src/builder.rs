//! C15, second harness: an embedder that uses the library's RequestBuilder directly (the way the
//! state machine's callers may: to report their own events, or to batch operations) and sends
//! what it built to a server.  A run draws a configuration, request parameters and a sequence of
//! builder operations {add update check, add ping, add event, set ids, build}; every built
//! request is decoded at the receiving end and compared, as a JSON value, with an independently
//! written encoder applied to the operation sequence so far.  Builds happen in the middle of
//! the sequence as well as at its end (a retry re-uses its builder), and each build is made
//! twice (building must not alter the builder).
//!
//! Repeated app ids differ from their first insertion in the cohort only (the statement says
//! which cohort is kept and is silent about the other members).

use crate::exec::{install_hooks, RunCfg, RunOut};
use crate::hist::*;
use crate::mon::MonOut;
use crate::monitors::c15::four_part;
use crate::profile::Profile;
use crate::rng::Draws;
use crate::world::*;
use omaha_client::common::{App, UserCounting};
use omaha_client::configuration::{Config, Updater};
use omaha_client::cup_ecdsa::StandardCupv2Handler;
use omaha_client::protocol::request::{Event, EventErrorCode, EventResult, EventType, InstallSource, GUID, OS};
use omaha_client::protocol::Cohort;
use omaha_client::request_builder::{RequestBuilder, RequestParams};
use serde_json::{json, Map, Value};
use std::sync::{Arc, Mutex};

#[derive(Clone)]
struct AppModel {
    id: String,
    version: Vec<u32>,
    fp: Option<String>,
    cohort: (Option<String>, Option<String>, Option<String>),
    day: Option<u32>,
    extra: Vec<(String, String)>,
}

#[derive(Clone, Default)]
struct Entry {
    app: usize, // index of the app id
    first: usize, // index (in the insertion list) of the value that was inserted first for this id
    update_check: bool,
    ping: bool,
    events: Vec<Value>,
}

fn draw_app(d: &mut Draws, key: &str, i: usize) -> AppModel {
    let version = match d.draw(&format!("{key}/version"), 4) {
        0 => vec![1, 2, 3, 4],
        1 => vec![7],
        2 => vec![0, 9],
        _ => vec![10, 0, u32::MAX],
    };
    let opt = |d: &mut Draws, k: &str, vals: &[&str]| -> Option<String> {
        let n = d.draw(&format!("{key}/{k}"), vals.len() as u64 + 1) as usize;
        if n == 0 {
            None
        } else {
            Some(vals[n - 1].to_string())
        }
    };
    let fp = opt(d, "fp", &["fp-1", ""]);
    let cohort = (opt(d, "cohort", &["1:1:", "", "c\"q"]), opt(d, "hint", &["stable", ""]), opt(d, "name", &["Name with space", ""]));
    let day = match d.draw(&format!("{key}/day"), 4) {
        0 => None,
        1 => Some(0),
        2 => Some(5000),
        _ => Some(u32::MAX),
    };
    let mut extra = vec![];
    let ne = d.draw(&format!("{key}/nextra"), 3);
    for e in 0..ne {
        let names = ["ap", "brand", "x-y.z"];
        extra.push((names[e as usize].to_string(), ["", "v", "with \"quotes\" and \\"][d.draw(&format!("{key}/extra#{e}"), 3) as usize].to_string()));
    }
    // an extra field may carry the name of a protocol member the app does not use itself
    if fp.is_none() && d.draw(&format!("{key}/extra.fp"), 6) == 5 {
        extra.push(("fp".to_string(), "extra-fp".to_string()));
    }
    if cohort.2.is_none() && d.draw(&format!("{key}/extra.cohortname"), 6) == 5 {
        extra.push(("cohortname".to_string(), "extra-name".to_string()));
    }
    AppModel { id: format!("app-{i}"), version, fp, cohort, day, extra }
}

fn to_app(a: &AppModel) -> App {
    let ver: omaha_client::version::Version = match a.version.len() {
        1 => [a.version[0]].into(),
        2 => [a.version[0], a.version[1]].into(),
        3 => [a.version[0], a.version[1], a.version[2]].into(),
        _ => [a.version[0], a.version[1], a.version[2], a.version[3]].into(),
    };
    let mut app = App::builder().id(a.id.clone()).version(ver).build();
    app.fingerprint = a.fp.clone();
    app.cohort = Cohort { id: a.cohort.0.clone(), hint: a.cohort.1.clone(), name: a.cohort.2.clone() };
    app.user_counting = UserCounting::ClientRegulatedByDate(a.day);
    app.extra_fields = a.extra.iter().cloned().collect();
    app
}

/// (library value, what the wire must carry)
fn draw_event(d: &mut Draws, key: &str) -> (Event, Value) {
    let types = [
        (EventType::Unknown, 0u64),
        (EventType::DownloadComplete, 1),
        (EventType::InstallComplete, 2),
        (EventType::UpdateComplete, 3),
        (EventType::UpdateDownloadStarted, 13),
        (EventType::UpdateDownloadFinished, 14),
        (EventType::RebootedAfterUpdate, 54),
    ];
    let results = [
        (EventResult::Error, 0u64),
        (EventResult::Success, 1),
        (EventResult::SuccessAndRestartRequired, 2),
        (EventResult::SuccessAndAppRestartRequired, 3),
        (EventResult::Cancelled, 4),
        (EventResult::ErrorInSystemInstaller, 8),
        (EventResult::UpdateDeferred, 9),
    ];
    let codes = [(EventErrorCode::ParseResponse, 0i64), (EventErrorCode::ConstructInstallPlan, 1), (EventErrorCode::Installation, 2), (EventErrorCode::DeniedByPolicy, 3)];
    // a small value space, so that equal events occur
    let t = &types[d.draw(&format!("{key}/type"), 3) as usize * 3 % types.len()];
    let t = if d.draw(&format!("{key}/type.any"), 3) == 2 { &types[d.draw(&format!("{key}/type.v"), types.len() as u64) as usize] } else { t };
    let r = &results[d.draw(&format!("{key}/result"), 2) as usize];
    let r = if d.draw(&format!("{key}/result.any"), 3) == 2 { &results[d.draw(&format!("{key}/result.v"), results.len() as u64) as usize] } else { r };
    let mut wire = Map::new();
    wire.insert("eventtype".into(), json!(t.1));
    wire.insert("eventresult".into(), json!(r.1));
    let mut ev = Event { event_type: t.0.clone(), event_result: r.0.clone(), ..Event::default() };
    if d.draw(&format!("{key}/code"), 4) == 3 {
        let c = &codes[d.draw(&format!("{key}/code.v"), codes.len() as u64) as usize];
        ev.errorcode = Some(c.0.clone());
        wire.insert("errorcode".into(), json!(c.1));
    }
    if d.draw(&format!("{key}/prev"), 3) == 2 {
        ev.previous_version = Some("1.2.3.4".into());
        wire.insert("previousversion".into(), json!("1.2.3.4"));
    }
    if d.draw(&format!("{key}/next"), 3) == 2 {
        ev.next_version = Some("2.0".into());
        wire.insert("nextversion".into(), json!("2.0"));
    }
    if d.draw(&format!("{key}/dl"), 5) == 4 {
        ev.download_time_ms = Some(12345);
        wire.insert("download_time_ms".into(), json!(12345));
    }
    (ev, Value::Object(wire))
}

fn braced(g: &GUID) -> String {
    // which id is on the wire matters here (the one set last); the wire form is checked by shape
    serde_json::to_value(g).ok().and_then(|v| v.as_str().map(|s| s.to_string())).unwrap_or_default()
}

fn is_braced_guid(s: &str) -> bool {
    let b = s.as_bytes();
    b.len() == 38 && b[0] == b'{' && b[37] == b'}' && s[1..37].chars().enumerate().all(|(i, c)| if [8, 13, 18, 23].contains(&i) { c == '-' } else { c.is_ascii_hexdigit() })
}

pub fn run_builder(p: &Profile, cfg: &RunCfg) -> (RunOut, MonOut) {
    let mut draws = Draws::new(cfg.seed);
    draws.overrides = cfg.overrides.clone();
    draws.default_zero = cfg.default_zero;
    let world: Shared = Arc::new(Mutex::new(World::new(p.clone(), draws)));
    install_hooks(Some(world.clone()));
    let mut mon = MonOut::default();
    let result = std::panic::catch_unwind(std::panic::AssertUnwindSafe(|| {
        let pr = "C15";
        // ---- configuration, parameters, apps
        let (config, params, models, insertions, with_cup, uv) = {
            let mut w = lock(&world);
            let d = &mut w.draws;
            let uv: Vec<u32> = match d.draw("cfg/updater_version", 3) {
                0 => vec![0, 1, 2, 3],
                1 => vec![9],
                _ => vec![1, 2, 3],
            };
            let url = ["https://omaha.example.test/json", "http://[::1]:8080/u?a=b", "https://omaha.example.test"][d.draw("cfg/url", 3) as usize];
            let config = Config {
                updater: Updater {
                    name: ["sim-updater", "name with \"quote\""][d.draw("cfg/updater_name", 2) as usize].into(),
                    version: match uv.len() {
                        1 => [uv[0]].into(),
                        3 => [uv[0], uv[1], uv[2]].into(),
                        _ => [uv[0], uv[1], uv[2], uv[3]].into(),
                    },
                },
                os: OS {
                    platform: ["sim-os", ""][d.draw("cfg/os.platform", 2) as usize].into(),
                    version: "1.0".into(),
                    service_pack: ["sp", ""][d.draw("cfg/os.sp", 2) as usize].into(),
                    arch: "simarch".into(),
                },
                service_url: url.to_string(),
                omaha_public_keys: None,
            };
            let params = RequestParams {
                source: if d.draw("params/source", 2) == 1 { InstallSource::OnDemand } else { InstallSource::ScheduledTask },
                use_configured_proxies: d.draw("params/proxy", 2) == 0,
                disable_updates: d.draw("params/disable", 3) == 2,
                offer_update_if_same_version: d.draw("params/same", 3) == 2,
            };
            let napps = 1 + d.draw("napps", 3) as usize;
            let mut models: Vec<AppModel> = (0..napps).map(|i| draw_app(d, &format!("app#{i}"), i)).collect();
            // two different apps whose ids differ in the case of letters only
            if napps >= 2 && d.draw("ids/case_variant", 4) == 3 {
                models[1].id = models[0].id.to_uppercase();
            }
            // a later insertion of the same id with another cohort
            let mut insertions: Vec<AppModel> = models.clone();
            for i in 0..napps {
                if d.draw(&format!("app#{i}/again"), 3) == 2 {
                    let mut again = models[i].clone();
                    again.cohort = (Some("second-insertion".into()), Some("second-hint".into()), None);
                    insertions.push(again);
                }
            }
            let with_cup = d.draw("cup", 4) == 3;
            (config, params, models, insertions, with_cup, uv)
        };
        let handler = if with_cup {
            let ks = crate::refserver::keys();
            Some(StandardCupv2Handler::new(&omaha_client::cup_ecdsa::PublicKeys {
                latest: omaha_client::cup_ecdsa::PublicKeyAndId { id: 42, key: ks[0].verifying_key() },
                historical: vec![],
            }))
        } else {
            None
        };
        let apps: Vec<App> = insertions.iter().map(to_app).collect();
        // ---- the operation sequence
        let nops = 1 + lock(&world).draws.draw("nops", 10) as usize;
        let mut entries: Vec<Entry> = vec![];
        let mut request_id: Option<String> = None;
        let mut session_id: Option<String> = None;
        let mut rb = RequestBuilder::new(&config, &params);
        let mut builds = 0;
        for k in 0..=nops {
            let key = format!("op#{k}");
            let op = if k == nops { 5 } else { lock(&world).draws.draw(&format!("{key}/kind"), 7) };
            let which = lock(&world).draws.draw(&format!("{key}/app"), insertions.len() as u64) as usize;
            let first_idx = models.iter().position(|m| m.id == insertions[which].id).unwrap();
            let mut entry_of = |entries: &mut Vec<Entry>| -> usize {
                match entries.iter().position(|e| e.app == first_idx) {
                    Some(i) => i,
                    None => {
                        entries.push(Entry { app: first_idx, first: which, ..Default::default() });
                        entries.len() - 1
                    }
                }
            };
            match op {
                0 | 1 => {
                    let e = entry_of(&mut entries);
                    entries[e].update_check = true;
                    let _g = SutGuard::enter();
                    rb = rb.add_update_check(&apps[which]);
                    lock(&world).rec(Kind::Note(format!("{key}: add_update_check({})", insertions[which].id)));
                }
                2 => {
                    let e = entry_of(&mut entries);
                    entries[e].ping = true;
                    let _g = SutGuard::enter();
                    rb = rb.add_ping(&apps[which]);
                    lock(&world).rec(Kind::Note(format!("{key}: add_ping({})", insertions[which].id)));
                }
                3 | 4 => {
                    let (ev, wire) = {
                        let mut w = lock(&world);
                        draw_event(&mut w.draws, &key)
                    };
                    let e = entry_of(&mut entries);
                    entries[e].events.push(wire.clone());
                    let _g = SutGuard::enter();
                    rb = rb.add_event(&apps[which], ev);
                    lock(&world).rec(Kind::Note(format!("{key}: add_event({}, {wire})", insertions[which].id)));
                }
                6 => {
                    // ids are set (again) before an attempt
                    let (r, s) = {
                        let _g = SutGuard::enter();
                        (GUID::new(), GUID::new())
                    };
                    let set_session = lock(&world).draws.draw(&format!("{key}/session"), 2) == 1;
                    request_id = Some(braced(&r));
                    let _g = SutGuard::enter();
                    rb = rb.request_id(r);
                    if set_session {
                        session_id = Some(braced(&s));
                        rb = rb.session_id(s);
                    }
                    lock(&world).rec(Kind::Note(format!("{key}: set ids")));
                }
                _ => {
                    // build, twice; what arrives must be what the operations so far say
                    builds += 1;
                    let site = format!("build#{builds}@{key}");
                    let mut bodies: Vec<Value> = vec![];
                    for round in 0..2 {
                        let built = {
                            let _g = SutGuard::enter();
                            rb.build(handler.as_ref())
                        };
                        let (req, _meta) = match built {
                            Ok(x) => x,
                            Err(e) => {
                                mon.viol(pr, "R2", &site, format!("build failed: {e}"));
                                continue;
                            }
                        };
                        mon.count("R6.direct_builds");
                        // ---- transport level
                        if req.method() != http::Method::POST {
                            mon.viol(pr, "R1", &site, "request is not a POST".to_string());
                        }
                        let uri = req.uri().to_string();
                        let base = uri.split("cup2key=").next().unwrap_or("").trim_end_matches(['?', '&']).to_string();
                        if base.trim_end_matches('/') != config.service_url.trim_end_matches('/') {
                            mon.viol(pr, "R1", &site, format!("request goes to {uri}, the service URL is {}", config.service_url));
                        }
                        let hdr = |name: &str| -> Vec<String> { req.headers().get_all(name).iter().map(|v| String::from_utf8_lossy(v.as_bytes()).to_string()).collect() };
                        let want_first = entries.first().map(|e| models[e.app].id.clone());
                        let checks = [
                            ("content-type", vec!["application/json".to_string()]),
                            ("x-goog-update-updater", vec![config.updater.name.clone()]),
                            ("x-goog-update-interactivity", vec![if params.source == InstallSource::OnDemand { "fg".to_string() } else { "bg".to_string() }]),
                            ("x-goog-update-appid", want_first.into_iter().collect()),
                        ];
                        for (name, want) in checks.iter() {
                            if &hdr(name) != want {
                                mon.viol(pr, "R1", &site, format!("header {name}: {:?}, expected {:?}", hdr(name), want));
                            }
                        }
                        let bytes = futures::executor::block_on(hyper::body::to_bytes(req.into_body())).map(|b| b.to_vec()).unwrap_or_default();
                        let got: Value = match serde_json::from_slice(&bytes) {
                            Ok(v) => v,
                            Err(e) => {
                                mon.viol(pr, "R2", &site, format!("body is not JSON: {e}"));
                                continue;
                            }
                        };
                        // ---- the independent encoder
                        let mut want_apps = vec![];
                        for e in &entries {
                            let a = &insertions[e.first];
                            let mut o = Map::new();
                            o.insert("appid".into(), json!(a.id));
                            o.insert("version".into(), json!(four_part(&a.version)));
                            if let Some(fp) = &a.fp {
                                o.insert("fp".into(), json!(fp));
                            }
                            for (k, v) in [("cohort", &a.cohort.0), ("cohorthint", &a.cohort.1), ("cohortname", &a.cohort.2)] {
                                if let Some(v) = v {
                                    o.insert(k.into(), json!(v));
                                }
                            }
                            if e.update_check {
                                let mut uc = Map::new();
                                if params.disable_updates {
                                    uc.insert("updatedisabled".into(), json!(true));
                                }
                                if params.offer_update_if_same_version {
                                    uc.insert("sameversionupdate".into(), json!(true));
                                }
                                o.insert("updatecheck".into(), Value::Object(uc));
                            }
                            if !e.events.is_empty() {
                                o.insert("event".into(), Value::Array(e.events.clone()));
                            }
                            if e.ping {
                                let mut pg = Map::new();
                                if let Some(d) = a.day {
                                    pg.insert("ad".into(), json!(d));
                                    pg.insert("rd".into(), json!(d));
                                }
                                o.insert("ping".into(), Value::Object(pg));
                            }
                            for (k, v) in &a.extra {
                                o.insert(k.clone(), json!(v));
                            }
                            want_apps.push(Value::Object(o));
                        }
                        let mut rq = Map::new();
                        rq.insert("protocol".into(), json!("3.0"));
                        rq.insert("updater".into(), json!(config.updater.name));
                        rq.insert("updaterversion".into(), json!(four_part(&uv)));
                        rq.insert("installsource".into(), json!(if params.source == InstallSource::OnDemand { "ondemand" } else { "scheduledtask" }));
                        rq.insert("ismachine".into(), json!(true));
                        if let Some(r) = &request_id {
                            rq.insert("requestid".into(), json!(r));
                        }
                        if let Some(s) = &session_id {
                            rq.insert("sessionid".into(), json!(s));
                        }
                        rq.insert("os".into(), json!({"platform": config.os.platform, "version": config.os.version, "sp": config.os.service_pack, "arch": config.os.arch}));
                        rq.insert("app".into(), Value::Array(want_apps));
                        let want = json!({ "request": Value::Object(rq) });
                        for k in ["requestid", "sessionid"] {
                            if let Some(v) = got["request"].get(k) {
                                if !v.as_str().map(is_braced_guid).unwrap_or(false) {
                                    mon.viol(pr, "R2", &site, format!("{k} is not a braced GUID: {v}"));
                                }
                            }
                        }
                        if got != want {
                            // name the first difference
                            let (ga, wa) = (got["request"]["app"].as_array().cloned().unwrap_or_default(), want["request"]["app"].as_array().cloned().unwrap_or_default());
                            let detail = if ga.len() != wa.len() {
                                format!("{} apps on the wire, {} expected", ga.len(), wa.len())
                            } else if let Some(i) = (0..ga.len()).find(|i| ga[*i] != wa[*i]) {
                                format!("app #{i} on the wire {} expected {}", ga[i], wa[i])
                            } else {
                                format!("request {} expected {}", got, want)
                            };
                            let rule = if detail.contains("\"event\"") && !detail.starts_with("request") { "R5" } else { "R3" };
                            mon.viol(pr, rule, &site, format!("build {round} after {} operations: {detail}", k));
                        }
                        bodies.push(got);
                    }
                    if bodies.len() == 2 && bodies[0] != bodies[1] {
                        mon.viol(pr, "R6", &site, "two consecutive builds of one builder differ".to_string());
                    }
                    mon.sig(format!("direct|apps{}|ops{}|build{}", entries.len(), k, builds));
                    if mon.sample.is_none() && entries.len() > 1 {
                        mon.sample = Some(json!({"direct_builder": true, "operations_before_build": k, "body": bodies.first()}));
                    }
                }
            }
        }
    }));
    install_hooks(None);
    let panic = match result {
        Ok(()) => None,
        Err(_) => crate::take_last_panic(),
    };
    if let Some(pi) = &panic {
        if pi.in_sut {
            mon.viol("C15", "R6", "builder", format!("panic in the request builder: {} at {}", pi.msg, pi.location));
        }
    }
    let (hist, decisions, stats) = {
        let mut w = lock(&world);
        (std::mem::take(&mut w.hist), std::mem::take(&mut w.draws.log), w.stats.clone())
    };
    (RunOut { hist, decisions, stats, panic, steps: 0, vt_end: 0 }, mon)
}
