//! The reference Omaha server, its CUP signer, the independent reference verifier, and the
//! network adversary. Shares no code with the library: requests are decoded with
//! serde_json::Value, documents are produced from an independent description of the v3
//! response grammar, and CUP is implemented from the protocol description with sha2 + p256.

use crate::hist::*;
use crate::profile::{ServerKind, NET_KINDS};
use crate::world::*;
use omaha_client::http_request;
use p256::ecdsa::signature::{Signer, Verifier};
use p256::ecdsa::{Signature, SigningKey, VerifyingKey};
use serde_json::{json, Map, Value};
use sha2::{Digest, Sha256};
use std::sync::OnceLock;

pub const N_KEYS: usize = 6;
static KEYS: OnceLock<Vec<SigningKey>> = OnceLock::new();

pub fn keys() -> &'static Vec<SigningKey> {
    KEYS.get_or_init(|| {
        let mut out = vec![];
        let mut i = 0u64;
        while out.len() < N_KEYS {
            let d = Sha256::digest(format!("omaha-sim-key-{i}").as_bytes());
            if let Ok(k) = SigningKey::from_bytes(&d) {
                out.push(k);
            }
            i += 1;
        }
        out
    })
}

pub const KEY_IDS: [u64; 7] = [42, 1, 0, u64::MAX, 123456789, 7, 1 << 32];

#[derive(Clone, Debug, Default)]
pub struct ServerState {
    /// Some(status): the service is down for this lifetime and answers everything with it
    pub outage_status: Option<u16>,
    /// the outage answers carry no X-Retry-After header, ever
    pub outage_plain: bool,
    /// (key id, index into keys()) — what the client is configured with
    pub client_latest: (u64, usize),
    pub client_historical: Vec<(u64, usize)>,
    /// what the server holds (first = its latest)
    pub server_keys: Vec<(u64, usize)>,
    pub attacker_key: usize,
    /// genuine responses delivered so far in this run (for replays): (status, headers, body)
    pub genuine: Vec<(u16, Vec<(String, Vec<u8>)>, Vec<u8>, Option<Value>, Option<bool>)>,
    pub mock: Option<std::sync::Arc<tokio::sync::Mutex<mock_omaha_server::OmahaServer>>>,
    /// C17: how the mock is currently configured, per app id
    pub mock_cfg: std::collections::BTreeMap<String, String>,
    pub mock_cfg_epoch: u32,
    pub mock_versions: std::collections::BTreeMap<String, String>,
    pub mock_forced_etag: bool,
    pub mock_disable_updates: bool,
    /// (request body, key id, nonce) of the previous CUP exchange handled by the mock
    pub prev_exchange: Option<(Vec<u8>, u64, [u8; 32])>,
}

// ---------------------------------------------------------------- CUP, written from the protocol description

/// Independent, string-level extraction of the cup2key query value from a request URI.
pub fn cup2key_of(uri: &str) -> Option<String> {
    let q = uri.split_once('?')?.1;
    let q = q.split('#').next().unwrap_or(q);
    let mut found = None;
    for pair in q.split('&') {
        if let Some(v) = pair.strip_prefix("cup2key=") {
            found = Some(v.to_string());
        }
    }
    found
}

pub fn parse_cup2key(v: &str) -> Option<(u64, String)> {
    let (id, nonce) = v.split_once(':')?;
    if id.is_empty() || !id.bytes().all(|b| b.is_ascii_digit()) {
        return None;
    }
    Some((id.parse().ok()?, nonce.to_string()))
}

pub fn tx_hash(req_body: &[u8], resp_body: &[u8], cup2key_val: &str) -> Vec<u8> {
    let mut h = Sha256::new();
    h.update(Sha256::digest(req_body));
    h.update(Sha256::digest(resp_body));
    h.update(cup2key_val.as_bytes());
    h.finalize().to_vec()
}

pub fn sign_etag(key: &SigningKey, req_body: &[u8], resp_body: &[u8], cup2key_val: &str) -> String {
    let sig: Signature = key.sign(&tx_hash(req_body, resp_body, cup2key_val));
    format!("{}:{}", hex::encode(sig.to_der().as_bytes()), hex::encode(Sha256::digest(req_body)))
}

fn is_hex(s: &str) -> Option<Vec<u8>> {
    if s.len() % 2 != 0 {
        return None;
    }
    let mut out = Vec::with_capacity(s.len() / 2);
    let b = s.as_bytes();
    let val = |c: u8| -> Option<u8> {
        match c {
            b'0'..=b'9' => Some(c - b'0'),
            b'a'..=b'f' => Some(c - b'a' + 10),
            b'A'..=b'F' => Some(c - b'A' + 10),
            _ => None,
        }
    };
    for i in (0..b.len()).step_by(2) {
        out.push(val(b[i])? * 16 + val(b[i + 1])?);
    }
    Some(out)
}

/// The reference verifier, from the property statement. Returns the decoded signature bytes on
/// acceptance. `etag` is the raw header value (None = header absent or duplicated ambiguity
/// resolved by the caller).
pub fn ref_verify(
    etag: Option<&[u8]>,
    retained_req_body: &[u8],
    resp_body: &[u8],
    key_id: u64,
    nonce_hex: &str,
    registry: &[(u64, VerifyingKey)],
) -> Option<Vec<u8>> {
    let etag = etag?;
    // header text must be visible ASCII (what an HTTP header string is)
    if !etag.iter().all(|b| (0x20..0x7f).contains(b) || *b == b'\t') {
        return None;
    }
    let s = std::str::from_utf8(etag).ok()?;
    // strip exactly one W/"..." or "..." wrapper
    let inner = if s.len() >= 4 && s.starts_with("W/\"") && s.ends_with('"') {
        &s[3..s.len() - 1]
    } else if s.len() >= 2 && s.starts_with('"') && s.ends_with('"') {
        &s[1..s.len() - 1]
    } else {
        s
    };
    let (sig_hex, hash_hex) = inner.split_once(':')?;
    let hash = is_hex(hash_hex)?;
    if hash.as_slice() != Sha256::digest(retained_req_body).as_slice() {
        return None;
    }
    let sig_bytes = is_hex(sig_hex)?;
    let sig = Signature::from_der(&sig_bytes).ok()?;
    let key = registry.iter().find(|(id, _)| *id == key_id).map(|(_, k)| k)?;
    let msg = tx_hash(retained_req_body, resp_body, &format!("{key_id}:{nonce_hex}"));
    key.verify(&msg, &sig).ok()?;
    Some(sig_bytes)
}

pub fn client_registry(s: &ServerState) -> Vec<(u64, VerifyingKey)> {
    // first registration wins is NOT assumed: the library builds a map from latest then
    // historical, so a later duplicate id would overwrite; the simulator never configures
    // duplicate ids.
    let mut v = vec![(s.client_latest.0, keys()[s.client_latest.1].verifying_key())];
    for (id, k) in &s.client_historical {
        v.push((*id, keys()[*k].verifying_key()));
    }
    v
}

// ---------------------------------------------------------------- response grammar generator

fn cohort_fields(w: &mut World, key: &str, m: &mut Map<String, Value>) {
    let weights = w.profile.srv.cohort_field;
    for f in ["cohort", "cohorthint", "cohortname"] {
        match w.draws.weighted(&format!("{key}/{f}"), &weights) {
            0 => {}
            1 => {
                m.insert(f.to_string(), json!(""));
            }
            _ => {
                // mostly channel-like names; sometimes values a careless normalisation would change
                let n = w.draws.draw(&format!("{key}/{f}.v"), 11);
                let v = match n {
                    0..=3 => format!("{f}-{n}"),
                    4 => "  padded value  ".to_string(),
                    5 => "UPPER-and-lower".to_string(),
                    6 => "1:1:".to_string(),
                    7 => "caf\u{e9}-\u{4e2d}".to_string(),
                    8 => "q\"uote\\slash".to_string(),
                    9 => "x".repeat(1100),
                    // longer than the protocol's 1024 bytes, with a two-byte character across that boundary
                    _ => format!("{}\u{e9}tail", "y".repeat(1023)),
                };
                m.insert(f.to_string(), json!(v));
            }
        }
    }
}

fn daystart(w: &mut World, key: &str, top: &mut Map<String, Value>) {
    let weights = w.profile.srv.daystart;
    match w.draws.weighted(&format!("{key}/daystart"), &weights) {
        0 => {}
        1 => {
            top.insert("daystart".into(), json!({}));
        }
        2 => {
            let d = match w.draws.draw(&format!("{key}/daystart.x"), 8) {
                0 => 0,
                1 => u32::MAX as u64,
                _ => 4000 + w.draws.draw(&format!("{key}/daystart.v"), 3000),
            };
            top.insert("daystart".into(), json!({ "elapsed_days": d }));
        }
        _ => {
            let d = 4000 + w.draws.draw(&format!("{key}/daystart.v"), 3000);
            top.insert("daystart".into(), json!({"elapsed_days": d, "elapsed_seconds": 48810}));
        }
    }
}

fn gen_updatecheck_ok(w: &mut World, key: &str, requested_version: Option<String>) -> Value {
    let mut u = Map::new();
    u.insert("status".into(), json!("ok"));
    let nurls = w.draws.draw(&format!("{key}/nurls"), 4);
    if nurls > 0 {
        let urls: Vec<Value> =
            (0..nurls)
                .map(|i| {
                    // codebases need not end in a slash: full URLs are plain concatenations
                    // the same codebase may be listed more than once: one full URL per (codebase, package) pair all the same
                    let i = if i > 0 && w.draws.draw(&format!("{key}/url{i}/same_as_first"), 8) == 0 { 0 } else { i };
                    let cb = match w.draws.draw(&format!("{key}/url{i}/form"), 5) {
                        0 | 1 => format!("http://dl{i}.example.test/p/"),
                        2 => format!("http://dl{i}.example.test/get?file="),
                        3 => format!("http://dl{i}.example.test/noslash"),
                        _ => format!("fuchsia-pkg://dl{i}.example.test//"),
                    };
                    // members the protocol does not define for a url object are ignored
                    match w.draws.draw(&format!("{key}/url{i}/ext"), 6) {
                        4 => json!({ "codebase": cb, "codebasediff": format!("http://dl{i}.example.test/diff/") }),
                        5 => json!({ "region": "eu", "codebase": cb }),
                        _ => json!({ "codebase": cb }),
                    }
                })
                .collect();
        if w.draws.draw(&format!("{key}/urls.ext"), 6) == 5 {
            u.insert("urls".into(), json!({ "url": urls, "x_urls_ext": [1, {"a": null}] }));
        } else {
            u.insert("urls".into(), json!({ "url": urls }));
        }
    }
    let absent = w.profile.srv.manifest_absent_permille;
    if !w.draws.chance(&format!("{key}/nomanifest"), absent) {
        let npk = w.draws.draw(&format!("{key}/npkgs"), 3);
        let mut pkgs = vec![];
        for i in 0..npk {
            let mut p = Map::new();
            // two packages may carry the same name
            let ni = if i > 0 && w.draws.draw(&format!("{key}/pkg{i}/same_name_as_first"), 8) == 0 { 0 } else { i };
            p.insert("name".into(), json!(format!("pkg{ni}?hash=ab{ni}")));
            p.insert("required".into(), json!(w.draws.draw(&format!("{key}/pkg{i}/req"), 2) == 1));
            p.insert("fp".into(), json!(format!("1.fp{i}")));
            let big = w.profile.srv.big_size_permille;
            if w.draws.chance(&format!("{key}/pkg{i}/big"), big) {
                let sizes: [u64; 6] = [u32::MAX as u64, 1 << 32, (1 << 32) + 7, 1 << 53, 1 << 63, u64::MAX];
                let s = sizes[w.draws.draw(&format!("{key}/pkg{i}/big.v"), 6) as usize];
                p.insert("size".into(), json!(s));
            } else if w.draws.draw(&format!("{key}/pkg{i}/size"), 2) == 1 {
                p.insert("size".into(), json!(1000 + i));
            }
            if w.draws.draw(&format!("{key}/pkg{i}/hash"), 2) == 1 {
                p.insert("hash_sha256".into(), json!("ab".repeat(32)));
            }
            let ex = w.profile.srv.extra_attrs_permille;
            if w.draws.chance(&format!("{key}/pkg{i}/extra"), ex) {
                let names = ["x_ext", "fingerprint", "hash_sha1", "id", "codebase"];
                let n = names[w.draws.draw(&format!("{key}/pkg{i}/extra.name"), names.len() as u64) as usize];
                p.insert(n.into(), json!({"k": [1, 2, "three"]}));
            }
            pkgs.push(Value::Object(p));
        }
        let nact = w.draws.draw(&format!("{key}/nactions"), 3);
        let mut actions = vec![];
        for i in 0..nact {
            let mut a = Map::new();
            if i == 0 {
                a.insert("event".into(), json!("install"));
                a.insert("run".into(), json!("pkg0"));
            } else {
                a.insert("event".into(), json!("postinstall"));
            }
            actions.push(Value::Object(a));
        }
        let ver = match w.draws.draw(&format!("{key}/mver"), 8) {
            // the version the request states for this app (an offer of the version already there)
            7 => {
                w.stat("server.offer_of_same_version");
                requested_version.unwrap_or_else(|| "2.0.0.0".to_string())
            }
            0 => "2.0.0.0".to_string(),
            1 => "2.1".to_string(),
            2 => "9.9.9.9".to_string(),
            3 => "3.0.0.1".to_string(),
            4 => String::new(),
            5 => "v2 (not a version)".to_string(),
            _ => "UNKNOWN".to_string(),
        };
        let mut mf = json!({"version": ver, "actions": {"action": actions}, "packages": {"package": pkgs}});
        if w.draws.draw(&format!("{key}/manifest.ext"), 6) == 5 {
            mf["x_manifest_ext"] = json!({"k": "v"});
            mf["packages"]["x_packages_ext"] = json!(true);
            mf["actions"]["x_actions_ext"] = json!(0);
        }
        u.insert("manifest".into(), mf);
    }
    let ex = w.profile.srv.extra_attrs_permille;
    if w.draws.chance(&format!("{key}/uextra"), ex) {
        u.insert("_urgent_update".into(), json!(true));
    }
    Value::Object(u)
}

/// Produce a response document for a decoded request. Returns (document, offers, grammatical).
pub fn gen_doc(w: &mut World, key: &str, req: &SentReq) -> Value {
    let empty = vec![];
    let req_apps: Vec<Value> = req
        .body_json
        .as_ref()
        .and_then(|b| b.get("request"))
        .and_then(|r| r.get("app"))
        .and_then(|a| a.as_array())
        .unwrap_or(&empty)
        .clone();
    let mut top = Map::new();
    top.insert("protocol".into(), json!("3.0"));
    if w.draws.draw(&format!("{key}/server"), 2) == 1 {
        top.insert("server".into(), json!("prod"));
    }
    daystart(w, key, &mut top);
    // which apps, in which order
    let mut ids: Vec<(String, Option<Value>)> = req_apps
        .iter()
        .map(|a| (a.get("appid").and_then(|x| x.as_str()).unwrap_or("").to_string(), Some(a.clone())))
        .collect();
    let list_weights = w.profile.srv.app_list;
    match w.draws.weighted(&format!("{key}/applist"), &list_weights) {
        0 => {}
        1 => {
            if ids.len() > 1 {
                let r = 1 + w.draws.draw(&format!("{key}/applist.rot"), ids.len() as u64 - 1) as usize;
                ids.rotate_left(r);
            }
        }
        2 => {
            if ids.len() > 1 {
                let r = w.draws.draw(&format!("{key}/applist.drop"), ids.len() as u64) as usize;
                ids.remove(r);
            }
        }
        _ => {
            let pos = w.draws.draw(&format!("{key}/applist.pos"), ids.len() as u64 + 1) as usize;
            ids.insert(pos, ("unknown-app-id".to_string(), None));
        }
    }
    let dup_rate = w.profile.srv.dup_app_permille;
    if !ids.is_empty() && w.draws.chance(&format!("{key}/applist.dup"), dup_rate) {
        let k = w.draws.draw(&format!("{key}/applist.dup.k"), ids.len() as u64) as usize;
        let again = ids[k].clone();
        ids.push(again);
        w.stat("server.app_id_listed_twice");
    }
    let mut apps = vec![];
    for (i, (id, reqapp)) in ids.iter().enumerate() {
        let akey = format!("{key}/app#{i}");
        let mut m = Map::new();
        m.insert("appid".into(), json!(id));
        cohort_fields(w, &akey, &mut m);
        let has_uc = reqapp.as_ref().map(|a| a.get("updatecheck").is_some()).unwrap_or(req.kind == ReqKind::UpdateCheck);
        let has_ping = reqapp.as_ref().map(|a| a.get("ping").is_some()).unwrap_or(false);
        let nevents = reqapp
            .as_ref()
            .and_then(|a| a.get("event"))
            .and_then(|e| e.as_array())
            .map(|e| e.len())
            .unwrap_or(0);
        let mut status = "ok".to_string();
        if has_uc {
            let weights = w.profile.srv.app_outcome;
            match w.draws.weighted(&format!("{akey}/outcome"), &weights) {
                0 => {
                    m.insert("updatecheck".into(), json!({"status": "noupdate"}));
                }
                1 => {
                    let stated = reqapp.as_ref().and_then(|a| a.get("version")).and_then(|v| v.as_str()).map(|v| v.to_string());
                    let u = gen_updatecheck_ok(w, &akey, stated);
                    m.insert("updatecheck".into(), u);
                }
                2 => {
                    // unknown status strings are errors whatever they look like: with characters that
                    // need a JSON escape, differing from a known token by case only, not ASCII
                    let errs = [
                        "error-unknownApplication",
                        "error-internal",
                        "error-hash",
                        "error-osnotsupported",
                        "error-\"quota\" exceeded",
                        "error-tab\there\\and backslash",
                        "NoUpdate",
                        "error-\u{e9}\u{6e20}",
                    ];
                    let e = errs[w.draws.draw(&format!("{akey}/err"), errs.len() as u64) as usize];
                    m.insert("updatecheck".into(), json!({"status": e, "info": "x"}));
                }
                3 => {
                    status = "restricted".to_string();
                    m.insert("updatecheck".into(), json!({"status": "restricted"}));
                }
                _ => {
                    status = "error-unknownApplication".to_string();
                }
            }
        }
        if has_ping {
            m.insert("ping".into(), json!({"status": "ok"}));
        }
        if nevents > 0 {
            m.insert("event".into(), Value::Array((0..nevents).map(|_| json!({"status": "ok"})).collect()));
        }
        m.insert("status".into(), json!(status));
        let ex = w.profile.srv.extra_attrs_permille;
        if w.draws.chance(&format!("{akey}/extra"), ex) {
            // also names that mean something elsewhere (in other objects of the protocol, in the
            // request, or as field names of the library's types): in an app they are extensions
            let names = ["x_app_ext", "id", "hint", "name", "version", "codebase", "extra_attributes", "update_check", "cohort_id"];
            let n = names[w.draws.draw(&format!("{akey}/extra.name"), names.len() as u64) as usize];
            let v = if w.draws.draw(&format!("{akey}/extra.kind"), 3) == 0 { json!(7) } else { json!("ext") };
            m.insert(n.into(), v);
        }
        apps.push(Value::Object(m));
    }
    top.insert("app".into(), Value::Array(apps));
    json!({ "response": Value::Object(top) })
}

/// A "forged but attractive" document: offers updates, new cohorts, daystart.
pub fn forged_doc(req: &SentReq) -> Value {
    let empty = vec![];
    let req_apps = req
        .body_json
        .as_ref()
        .and_then(|b| b.get("request"))
        .and_then(|r| r.get("app"))
        .and_then(|a| a.as_array())
        .unwrap_or(&empty);
    let apps: Vec<Value> = req_apps
        .iter()
        .map(|a| {
            json!({
                "appid": a.get("appid").cloned().unwrap_or(json!("x")),
                "status": "ok",
                "cohort": "evil-cohort", "cohorthint": "evil-hint", "cohortname": "evil-name",
                "ping": {"status": "ok"},
                "updatecheck": {"status": "ok",
                    "urls": {"url": [{"codebase": "http://evil.example.test/"}]},
                    "manifest": {"version": "66.6.6.6", "actions": {"action": []},
                                 "packages": {"package": [{"name": "evil", "required": true, "fp": "6.6"}]}}}
            })
        })
        .collect();
    json!({"response": {"protocol": "3.0", "daystart": {"elapsed_days": 9999, "elapsed_seconds": 1}, "app": apps}})
}

/// Byzantine mutation of a grammatical document: remove a field that is unarguably required,
/// or give a typed field a value of the wrong type. Returns a description, or None if the
/// chosen mutation does not apply to this document.
pub fn byzantine(doc: &mut Value, which: u64) -> Option<String> {
    let resp = doc.get_mut("response")?;
    match which % 18 {
        0 => {
            let o = doc.as_object_mut()?;
            o.remove("response")?;
            Some("remove response".into())
        }
        1 => {
            resp.as_object_mut()?.remove("protocol")?;
            Some("remove protocol".into())
        }
        2 => {
            resp.as_object_mut()?.remove("app")?;
            Some("remove app".into())
        }
        3 => {
            let a = resp.get_mut("app")?.as_array_mut()?.first_mut()?;
            a.as_object_mut()?.remove("appid")?;
            Some("remove appid".into())
        }
        4 => {
            let a = resp.get_mut("app")?.as_array_mut()?.first_mut()?;
            a.as_object_mut()?.remove("status")?;
            Some("remove app status".into())
        }
        5 => {
            for a in resp.get_mut("app")?.as_array_mut()? {
                if let Some(u) = a.get_mut("updatecheck") {
                    u.as_object_mut()?.remove("status")?;
                    return Some("remove updatecheck status".into());
                }
            }
            None
        }
        6 => {
            for a in resp.get_mut("app")?.as_array_mut()? {
                if let Some(m) = a.get_mut("updatecheck").and_then(|u| u.get_mut("manifest")) {
                    m.as_object_mut()?.remove("version")?;
                    return Some("remove manifest version".into());
                }
            }
            None
        }
        7 => {
            for a in resp.get_mut("app")?.as_array_mut()? {
                if let Some(p) = a
                    .get_mut("updatecheck")
                    .and_then(|u| u.get_mut("manifest"))
                    .and_then(|m| m.get_mut("packages"))
                    .and_then(|p| p.get_mut("package"))
                    .and_then(|p| p.as_array_mut())
                    .and_then(|p| p.first_mut())
                {
                    p.as_object_mut()?.remove("name")?;
                    return Some("remove package name".into());
                }
            }
            None
        }
        8 => {
            for a in resp.get_mut("app")?.as_array_mut()? {
                if let Some(u) = a
                    .get_mut("updatecheck")
                    .and_then(|u| u.get_mut("urls"))
                    .and_then(|u| u.get_mut("url"))
                    .and_then(|u| u.as_array_mut())
                    .and_then(|u| u.first_mut())
                {
                    u.as_object_mut()?.remove("codebase")?;
                    return Some("remove url codebase".into());
                }
            }
            None
        }
        9 => {
            let r = resp.as_object_mut()?;
            r.insert("app".into(), json!({"not": "an array"}));
            Some("app not an array".into())
        }
        10 => {
            let a = resp.get_mut("app")?.as_array_mut()?.first_mut()?;
            a.as_object_mut()?.insert("appid".into(), json!(12345));
            Some("numeric appid".into())
        }
        11 => {
            let d = resp.get_mut("daystart")?.as_object_mut()?;
            d.insert("elapsed_days".into(), json!("4000"));
            Some("string elapsed_days".into())
        }
        12 => {
            let d = resp.get_mut("daystart")?.as_object_mut()?;
            d.insert("elapsed_days".into(), json!(-5));
            Some("negative elapsed_days".into())
        }
        13 | 14 | 15 => {
            for a in resp.get_mut("app")?.as_array_mut()? {
                if let Some(p) = a
                    .get_mut("updatecheck")
                    .and_then(|u| u.get_mut("manifest"))
                    .and_then(|m| m.get_mut("packages"))
                    .and_then(|p| p.get_mut("package"))
                    .and_then(|p| p.as_array_mut())
                    .and_then(|p| p.first_mut())
                {
                    let o = p.as_object_mut()?;
                    return match which % 18 {
                        13 => {
                            o.insert("size".into(), json!(-1));
                            Some("negative size".into())
                        }
                        14 => {
                            o.insert("size".into(), json!("12"));
                            Some("string size".into())
                        }
                        _ => {
                            o.insert("required".into(), json!("true"));
                            Some("string required".into())
                        }
                    };
                }
            }
            None
        }
        16 | 17 => {
            for a in resp.get_mut("app")?.as_array_mut()? {
                if let Some(m) = a.get_mut("updatecheck").and_then(|u| u.get_mut("manifest")) {
                    let k = if which % 18 == 16 { "actions" } else { "packages" };
                    m.as_object_mut()?.remove(k)?;
                    return Some(format!("remove manifest {k}"));
                }
            }
            None
        }
        _ => None,
    }
}

pub fn garbage_body(w: &mut World, key: &str) -> Vec<u8> {
    match w.draws.draw(&format!("{key}/garbage.kind"), 16) {
        8 => b")]}'".to_vec(),
        9 => b")]}".to_vec(),
        10 => b")]}'X{\"response\":{\"protocol\":\"3.0\",\"app\":[]}}".to_vec(),
        11 => b")]}'\n)]}'\n{}".to_vec(),
        // structurally valid documents with nothing in them
        14 => b"{\"response\":{\"protocol\":\"3.0\",\"app\":[]}}".to_vec(),
        15 => b")]}'\n{\"response\":{\"protocol\":\"3.0\",\"server\":\"prod\",\"daystart\":{},\"app\":[]}}".to_vec(),
        12 => b"<html><head><title>Sign in</title></head><body>captive portal</body></html>".to_vec(),
        13 => b"  \n<?xml version=\"1.0\"?><response protocol=\"3.0\"/>".to_vec(),
        0 => vec![],
        1 => {
            let n = 1 + w.draws.draw(&format!("{key}/garbage.len"), 200) as usize;
            (0..n).map(|i| (w.draws.raw(&format!("{key}/g{i}")) & 0xff) as u8).collect()
        }
        2 => {
            // deep nesting
            let n = 200 + w.draws.draw(&format!("{key}/garbage.depth"), 20000) as usize;
            let mut v = Vec::with_capacity(2 * n + 20);
            v.extend_from_slice(b"{\"response\":");
            v.extend(std::iter::repeat(b'[').take(n));
            v.extend(std::iter::repeat(b']').take(n));
            v.push(b'}');
            v
        }
        3 => b"{\"response\": 5}".to_vec(),
        4 => b"[1,2,3]".to_vec(),
        5 => b")]}'\n".to_vec(),
        6 => b"{\"response\":{\"protocol\":\"3.0\",\"app\":[{\"appid\":\"a\",\"status\":\"ok\",\"updatecheck\":{\"status\":\"ok\",\"manifest\":{\"version\":\"1\",\"actions\":{\"action\":[]},\"packages\":{\"package\":[{\"name\":\"n\",\"required\":true,\"fp\":\"f\",\"size\":1e400}]}}}}]}}".to_vec(),
        _ => b"{\"response\":{\"protocol\":\"3.0\",\"app\":[],\"app\":[]}}".to_vec(),
    }
}

fn retry_after_value(w: &mut World, key: &str) -> (Vec<u8>, &'static str) {
    let classes: [(&[u8], &str); 16] = [
        (b"5", "small"),
        (b"1234", "small"),
        (b"86400", "cap"),
        (b"86401", "over"),
        (b"4294967296", "over_u32"),
        (b"99999999999", "over_u32"),
        (b"18446744073709551615", "u64max"),
        (b"18446744073709551616", "over_u64"),
        (b"0", "zero"),
        (b"007", "leading_zeros"),
        (b"-5", "negative"),
        (b" 5", "space"),
        (b"5 ", "space"),
        (b"", "empty"),
        (b"\xff\xfe", "opaque"),
        (b"+5", "plus"),
    ];
    let i = w.draws.draw(&format!("{key}/retry_after.v"), classes.len() as u64) as usize;
    (classes[i].0.to_vec(), classes[i].1)
}

fn build_response(status: u16, headers: &[(String, Vec<u8>)], body: Vec<u8>) -> http::Response<Vec<u8>> {
    let mut b = http::Response::builder().status(status);
    for (k, v) in headers {
        if let Ok(hv) = http::HeaderValue::from_bytes(v) {
            b = b.header(k.as_str(), hv);
        }
    }
    b.body(body).expect("response construction")
}

/// Decide the fate of exchange `id` at delivery time: adversary x server.
pub fn deliver(w: &mut World, id: u64, label: &str) {
    let req = match w.sent.get(&id) {
        Some(r) => r.clone(),
        None => return,
    };
    let weights = w.profile.net.weights();
    let mut fault = w.draws.weighted(&format!("{label}/fault"), &weights);
    // an outage: for this whole lifetime every exchange is answered with one and the same status
    match w.server.outage_status {
        // (1 and 2 stand for "every request fails in transport" / "every request times out")
        Some(st) if st < 100 => fault = st as usize,
        Some(_) => fault = 5,
        None => {}
    }
    let fault_name = NET_KINDS[fault];
    if fault != 0 {
        w.stat(&format!("net.{fault_name}"));
    }
    // request-side losses
    let neterr = match fault {
        1 => Some((NetErr::Transport, http_request::mock_errors::make_transport_error())),
        2 => Some((NetErr::Timeout, http_request::Error::new_timeout())),
        3 => Some((NetErr::User, http_request::mock_errors::make_user_error())),
        _ => None,
    };
    if let Some((kind, e)) = neterr {
        w.rec(Kind::HttpDeliver { id, result: Err(kind) });
        w.http_results.insert(id, Err(e));
        return;
    }

    let cup2key = cup2key_of(&req.uri);
    let parsed = cup2key.as_deref().and_then(parse_cup2key);

    // ---- the server produces its genuine answer
    let (mut status, mut headers, mut body, mut doc, mut grammatical): (
        u16,
        Vec<(String, Vec<u8>)>,
        Vec<u8>,
        Option<Value>,
        Option<bool>,
    );
    if w.profile.server == ServerKind::Mock {
        match crate::mockserver::handle(w, id, label, &req) {
            Some((s, h, b, d)) => {
                status = s;
                headers = h;
                body = b;
                doc = d;
                grammatical = None;
            }
            None => {
                w.rec(Kind::HttpDeliver { id, result: Err(NetErr::Transport) });
                w.http_results.insert(id, Err(http_request::mock_errors::make_transport_error()));
                return;
            }
        }
    } else {
        w.rec(Kind::ServerHandled { id, server: "ref".into() });
        let mut d = gen_doc(w, label, &req);
        grammatical = Some(true);
        if fault == 12 {
            let which = w.draws.draw(&format!("{label}/byz"), 18);
            if byzantine(&mut d, which).is_some() {
                grammatical = Some(false);
            }
        }
        // compact or pretty-printed (multi-line) serialisation
        body = if w.draws.draw(&format!("{label}/pretty"), 4) == 3 { serde_json::to_vec_pretty(&d).unwrap() } else { serde_json::to_vec(&d).unwrap() };
        let xssi = w.profile.srv.xssi_prefix_permille;
        if w.draws.chance(&format!("{label}/xssi"), xssi) {
            let mut b = b")]}'\n".to_vec();
            b.extend_from_slice(&body);
            body = b;
        }
        doc = Some(d);
        status = 200;
        if fault == 5 {
            let statuses = [500u16, 503, 404, 400, 429, 301, 304, 100, 204, 201, 599, 403];
            status = statuses[w.draws.draw(&format!("{label}/status.v"), statuses.len() as u64) as usize];
            if let Some(st) = w.server.outage_status {
                if st >= 100 {
                    status = st;
                }
            }
            if w.draws.draw(&format!("{label}/status.emptybody"), 2) == 1 {
                body = vec![];
                doc = None;
                grammatical = Some(false);
            }
        }
        headers = vec![("content-type".to_string(), b"application/json".to_vec())];
        let ra = w.profile.net.retry_after;
        // the standard Retry-After header (a load balancer's) is not the protocol's X-Retry-After
        if w.draws.chance(&format!("{label}/plain_retry_after"), ra / 2) {
            headers.push(("retry-after".to_string(), b"120".to_vec()));
            w.stat("net.standard_retry_after_header");
        }
        // (a service that is simply down sends no header at all, for as long as it is down)
        if !w.server.outage_plain && w.draws.chance(&format!("{label}/retry_after"), ra) {
            let (v, class) = retry_after_value(w, label);
            w.stat(&format!("net.retry_after.{class}"));
            headers.push(("x-retry-after".to_string(), v.clone()));
            if w.draws.draw(&format!("{label}/retry_after.dup"), 10) == 9 {
                // duplicated header with the same value (any-one-of semantics stay unambiguous)
                headers.push(("x-retry-after".to_string(), v));
                w.stat("net.retry_after.duplicate");
            }
        }
        // sign
        if w.profile.srv.signs {
            if let (Some(c2k), Some((kid, _nonce))) = (cup2key.as_ref(), parsed.as_ref()) {
                if let Some((_, kidx)) = w.server.server_keys.iter().find(|(id, _)| id == kid).cloned() {
                    let etag = sign_etag(&keys()[kidx], &req.body, &body, c2k);
                    let enc = w.profile.srv.etag_enc;
                    let etag = match w.draws.weighted(&format!("{label}/etag.enc"), &enc) {
                        0 => etag,
                        1 => format!("\"{etag}\""),
                        _ => format!("W/\"{etag}\""),
                    };
                    headers.push(("etag".to_string(), etag.into_bytes()));
                }
            }
        }
    }

    if fault == 4 {
        // response lost on the way back
        w.rec(Kind::HttpDeliver { id, result: Err(NetErr::Transport) });
        w.http_results.insert(id, Err(http_request::mock_errors::make_transport_error()));
        return;
    }

    let genuine = (status, headers.clone(), body.clone(), doc.clone(), grammatical);
    let mut tamper = "none".to_string();

    // ---- in-flight tampering
    match fault {
        6 => {
            body = garbage_body(w, label);
            doc = None;
            grammatical = None;
            tamper = "body_garbage".into();
        }
        7 => {
            if !body.is_empty() {
                let pos = w.draws.draw(&format!("{label}/flip.pos"), body.len() as u64) as usize;
                let bit = w.draws.draw(&format!("{label}/flip.bit"), 8) as u8;
                body[pos] ^= 1 << bit;
                grammatical = None;
                tamper = format!("body_bitflip@{pos}.{bit}");
            }
        }
        8 if w.draws.draw(&format!("{label}/trunc.or_extend"), 4) == 3 => {
            // the opposite of a truncation: bytes after the end of a complete document
            let junk: &[u8] = [&b"}"[..], &b" x"[..], &b"\0"[..], &b"{}"[..], &b")]}'\n"[..], &b"\xff\xfe"[..]][w.draws.draw(&format!("{label}/extend.v"), 6) as usize];
            body.extend_from_slice(junk);
            grammatical = None;
            tamper = "body_extended".to_string();
        }
        8 => {
            if !body.is_empty() {
                let keep = if w.draws.draw(&format!("{label}/trunc.early"), 4) == 0 {
                    (w.draws.draw(&format!("{label}/trunc"), 8) as usize).min(body.len() - 1)
                } else {
                    w.draws.draw(&format!("{label}/trunc"), body.len() as u64) as usize
                };
                body.truncate(keep);
                grammatical = None;
                tamper = format!("body_truncate@{keep}");
            }
        }
        9 => {
            let pos = headers.iter().position(|(k, _)| k == "etag");
            let which = w.draws.draw(&format!("{label}/etag.kind"), 9);
            match (pos, which) {
                (Some(p), 0) => {
                    headers.remove(p);
                    tamper = "etag_strip".into();
                }
                (Some(p), 1) => {
                    let v = &mut headers[p].1;
                    // position drawn from a fixed range: the ETag's length depends on the DER
                    // length of the signature, which must not influence the decision log
                    let i = (w.draws.draw(&format!("{label}/etag.pos"), 128) as usize) % v.len().max(1);
                    // keep it a visible ASCII hex-ish char, but different
                    v[i] = if v[i] == b'0' { b'1' } else { b'0' };
                    tamper = "etag_flip".into();
                }
                (Some(p), 2) => {
                    let v = &mut headers[p].1;
                    let n = v.len() / 2;
                    v.truncate(n);
                    tamper = "etag_truncate".into();
                }
                (Some(p), 3) => {
                    // swap with the ETag of an earlier genuine response
                    let other = w
                        .server
                        .genuine
                        .iter()
                        .rev()
                        .find_map(|(_, h, _, _, _)| h.iter().find(|(k, _)| k == "etag").map(|(_, v)| v.clone()));
                    if let Some(o) = other {
                        headers[p].1 = o;
                        tamper = "etag_swap".into();
                    }
                }
                (_, 4) => {
                    // re-sign with a key the client does not trust for this id
                    if let Some(c2k) = cup2key.as_ref() {
                        let etag = sign_etag(&keys()[w.server.attacker_key], &req.body, &body, c2k);
                        headers.retain(|(k, _)| k != "etag");
                        headers.push(("etag".into(), etag.into_bytes()));
                        tamper = "etag_resign_other_key".into();
                    }
                }
                (_, 5) => {
                    // genuine key, but digest composed without the cup2key component
                    if let (Some(_c2k), Some((kid, _))) = (cup2key.as_ref(), parsed.as_ref()) {
                        if let Some((_, kidx)) = w.server.server_keys.iter().find(|(i, _)| i == kid).cloned() {
                            let etag = sign_etag(&keys()[kidx], &req.body, &body, "");
                            headers.retain(|(k, _)| k != "etag");
                            headers.push(("etag".into(), etag.into_bytes()));
                            tamper = "etag_recompose_no_cup2key".into();
                        }
                    }
                }
                (Some(p), 7) => {
                    // genuine signature, request-hash half replaced by valid hex of another length
                    let v = String::from_utf8_lossy(&headers[p].1).to_string();
                    if let Some((sig, hash)) = v.rsplit_once(':') {
                        let lens = [0usize, 2, 6, 32, 62, 66, 128];
                        let n = lens[w.draws.draw(&format!("{label}/etag.hashlen"), lens.len() as u64) as usize];
                        let clean: String = hash.chars().filter(|c| c.is_ascii_hexdigit()).collect();
                        let longer = format!("{clean}{clean}{clean}");
                        let tail = if hash.ends_with('"') { "\"" } else { "" };
                        headers[p].1 = format!("{sig}:{}{tail}", &longer[..n.min(longer.len())]).into_bytes();
                        tamper = format!("etag_hash_length_{n}");
                    }
                }
                (_, 8) => {
                    let texts: [&[u8]; 14] = [b"", b"\"", b"\"\"", b"W/\"", b"W/\"\"", b":", b"::", b"W/\":\"", b"abc", b"zz:zz", b"00:00", b"\"00:00", b"W/00:00\"", b"3006020101020101:00"];
                    let t = texts[w.draws.draw(&format!("{label}/etag.text"), texts.len() as u64) as usize];
                    headers.retain(|(k, _)| k != "etag");
                    headers.push(("etag".into(), t.to_vec()));
                    tamper = "etag_arbitrary_text".into();
                }
                (_, _) => {
                    // genuine key, digest with request/response hashes swapped
                    if let (Some(c2k), Some((kid, _))) = (cup2key.as_ref(), parsed.as_ref()) {
                        if let Some((_, kidx)) = w.server.server_keys.iter().find(|(i, _)| i == kid).cloned() {
                            let sig: Signature = keys()[kidx].sign(&tx_hash(&body, &req.body, c2k));
                            let etag = format!(
                                "{}:{}",
                                hex::encode(sig.to_der().as_bytes()),
                                hex::encode(Sha256::digest(&req.body))
                            );
                            headers.retain(|(k, _)| k != "etag");
                            headers.push(("etag".into(), etag.into_bytes()));
                            tamper = "etag_recompose_swapped".into();
                        }
                    }
                }
            }
        }
        10 => {
            if !w.server.genuine.is_empty() {
                let n = w.server.genuine.len() as u64;
                let i = w.draws.draw(&format!("{label}/replay.i"), n) as usize;
                let (s, h, b, d, g) = w.server.genuine[i].clone();
                status = s;
                headers = h;
                body = b;
                doc = d;
                grammatical = g;
                tamper = format!("replay#{i}");
            }
        }
        11 => {
            let d = forged_doc(&req);
            body = serde_json::to_vec(&d).unwrap();
            doc = Some(d);
            grammatical = Some(true);
            headers.retain(|(k, _)| k != "etag" && k != "x-retry-after");
            headers.push(("x-retry-after".into(), b"77".to_vec()));
            match w.draws.draw(&format!("{label}/forged.kind"), 4) {
                0 => {
                    tamper = "forged_unsigned".into();
                }
                1 => {
                    if let Some(c2k) = cup2key.as_ref() {
                        let etag = sign_etag(&keys()[w.server.attacker_key], &req.body, &body, c2k);
                        headers.push(("etag".into(), etag.into_bytes()));
                    }
                    tamper = "forged_attacker_key".into();
                }
                2 => {
                    status = 503;
                    tamper = "forged_unsigned_503".into();
                }
                _ => {
                    // keeps the genuine ETag of the replaced body
                    if let Some(e) = genuine.1.iter().find(|(k, _)| k == "etag") {
                        headers.push(e.clone());
                    }
                    tamper = "forged_body_genuine_etag".into();
                }
            }
        }
        _ => {}
    }
    if fault == 12 {
        tamper = "byzantine_doc".into();
    }
    if fault == 5 {
        tamper = format!("status_{status}");
    }

    // ---- ground truth
    let authentic = match (&parsed, w.profile.server == ServerKind::Mock || true) {
        (Some((kid, nonce)), _) => {
            let etags: Vec<&Vec<u8>> = headers.iter().filter(|(k, _)| k == "etag").map(|(_, v)| v).collect();
            let reg = client_registry(&w.server);
            let etag = if etags.len() == 1 { Some(etags[0].as_slice()) } else { None };
            Some(ref_verify(etag, &req.body, &body, *kid, nonce, &reg).is_some())
        }
        (None, _) => None,
    };

    if tamper == "none" || tamper.starts_with("status_") || tamper == "byzantine_doc" {
        if w.server.genuine.len() < 16 {
            w.server.genuine.push(genuine);
        }
    }

    let rec = DeliveredResp {
        status,
        headers: headers.clone(),
        body_len: body.len(),
        body_sha: sha_hex(&body),
        tamper,
        authentic,
        doc,
        grammatical,
        body: if body.len() <= 4096 { body.clone() } else { Vec::new() },
    };
    w.rec(Kind::HttpDeliver { id, result: Ok(rec) });
    w.http_results.insert(id, Ok(build_response(status, &headers, body)));
}
