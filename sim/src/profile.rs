//! Run profiles: the knobs that shape the schedule / fault space a property's check samples.
//! Everything is an integer weight or permille rate so that profiles can be printed in
//! replay files and evidence.

use serde::{Deserialize, Serialize};

#[derive(Clone, Debug, Serialize, Deserialize, PartialEq)]
pub enum Mode {
    /// StateMachineBuilder::start(): continuous operation
    Start,
    /// StateMachineBuilder::oneshot_check()
    Oneshot,
    /// mixture decided per run
    Either,
}

#[derive(Clone, Debug, Serialize, Deserialize, PartialEq)]
pub enum ServerKind {
    Ref,
    Mock,
}

#[derive(Clone, Debug, Serialize, Deserialize)]
#[serde(default)]
pub struct NetRates {
    // per-exchange weights of the adversary's top-level choice; index 0 = none
    pub none: u32,
    pub transport: u32,
    pub timeout: u32,
    pub user: u32,
    pub drop_response: u32,
    pub status: u32,
    pub body_garbage: u32,
    pub body_bitflip: u32,
    pub body_truncate: u32,
    pub etag_tamper: u32,
    pub replay: u32,
    pub forged: u32,
    pub byzantine_doc: u32,
    pub duplicate: u32,
    /// independent chance (permille) that a delivered response carries X-Retry-After
    pub retry_after: u32,
    /// per-lifetime chance of an outage: every exchange is answered with one and the same error status
    pub outage_permille: u32,
}

impl NetRates {
    pub fn clean() -> Self {
        NetRates {
            none: 1000,
            transport: 0,
            timeout: 0,
            user: 0,
            drop_response: 0,
            status: 0,
            body_garbage: 0,
            body_bitflip: 0,
            body_truncate: 0,
            etag_tamper: 0,
            replay: 0,
            forged: 0,
            byzantine_doc: 0,
            duplicate: 0,
            retry_after: 0,
            outage_permille: 0,
        }
    }
    pub fn weights(&self) -> [u32; 14] {
        [
            self.none,
            self.transport,
            self.timeout,
            self.user,
            self.drop_response,
            self.status,
            self.body_garbage,
            self.body_bitflip,
            self.body_truncate,
            self.etag_tamper,
            self.replay,
            self.forged,
            self.byzantine_doc,
            self.duplicate,
        ]
    }
}

pub const NET_KINDS: [&str; 14] = [
    "none",
    "transport",
    "timeout",
    "user",
    "drop_response",
    "status",
    "body_garbage",
    "body_bitflip",
    "body_truncate",
    "etag_tamper",
    "replay",
    "forged",
    "byzantine_doc",
    "duplicate",
];

#[derive(Clone, Debug, Serialize, Deserialize)]
#[serde(default)]
pub struct DiskRates {
    pub fail_set: u32,
    pub fail_remove: u32,
    pub fail_commit: u32,
    /// chance that an operation is not instantaneous
    pub slow: u32,
    /// a failed commit keeps (0) or drops (1) the pending writes: drawn per run if true
    pub commit_fail_drops_pending: bool,
    /// hostile initial contents
    pub hostile_init: u32,
    /// when not empty, set/remove failures hit only these keys (a partial storage fault)
    pub fail_keys: Vec<String>,
}

impl DiskRates {
    pub fn clean() -> Self {
        DiskRates {
            fail_set: 0,
            fail_remove: 0,
            fail_commit: 0,
            slow: 0,
            commit_fail_drops_pending: false,
            hostile_init: 0,
            fail_keys: vec![],
        }
    }
}

#[derive(Clone, Debug, Serialize, Deserialize)]
#[serde(default)]
pub struct PolicyWeights {
    // update_check_allowed: Ok, OkUpdateDeferred, TooSoon, Throttled, Denied
    pub check: [u32; 5],
    // update_can_start: Ok, Deferred, Denied
    pub can_start: [u32; 3],
    pub reboot_needed_permille: u32,
    pub reboot_allowed_permille: u32,
    /// params: chance of OnDemand source / disable_updates / same_version in the answer
    pub params_vary: u32,
    /// timing kinds: wall, mono, complex
    pub timing_kind: [u32; 3],
    pub min_wait_permille: u32,
    /// chance that a minimum wait is as long as the type allows (Duration::MAX, i64::MAX seconds, ...)
    pub huge_min_wait_permille: u32,
    /// policy never varies disable_updates per answer (C17: the mock asserts one value per run)
    pub params_no_disable: bool,
}

impl Default for PolicyWeights {
    fn default() -> Self {
        PolicyWeights {
            check: [80, 5, 5, 5, 5],
            can_start: [80, 10, 10],
            reboot_needed_permille: 600,
            reboot_allowed_permille: 500,
            params_vary: 300,
            timing_kind: [1, 1, 2],
            min_wait_permille: 400,
            huge_min_wait_permille: 0,
            params_no_disable: false,
        }
    }
}

#[derive(Clone, Debug, Serialize, Deserialize)]
#[serde(default)]
pub struct InstallerWeights {
    pub plan_fail_permille: u32,
    // per app: Installed, Deferred, Failed
    pub app_result: [u32; 3],
    pub max_progress: u32,
    // reboot: "never returns (reboots)", returns Ok, returns Err
    pub reboot: [u32; 3],
    /// plan id: 0 = derived from response (stable for same offer), 1 = fresh per attempt
    pub plan_id_fresh_permille: u32,
    /// a progress report is polled once and then dropped (cancelled) instead of awaited
    pub cancel_progress_permille: u32,
    /// two progress reports are in flight at once (two workers of one installer)
    pub concurrent_progress_permille: u32,
    /// the installer goes from one progress report to the next without waiting for anything
    pub step_nowait_permille: u32,
}

impl Default for InstallerWeights {
    fn default() -> Self {
        InstallerWeights {
            plan_fail_permille: 100,
            app_result: [70, 15, 15],
            max_progress: 4,
            reboot: [60, 20, 20],
            plan_id_fresh_permille: 200,
            cancel_progress_permille: 0,
            concurrent_progress_permille: 0,
            step_nowait_permille: 0,
        }
    }
}

#[derive(Clone, Debug, Serialize, Deserialize)]
#[serde(default)]
pub struct ServerWeights {
    /// per-app updatecheck outcome: noupdate, ok, error-*, restricted(app status), absent updatecheck
    pub app_outcome: [u32; 5],
    /// response app list: 0 same as request, 1 permuted, 2 subset, 3 with unknown ids
    pub app_list: [u32; 4],
    /// cohort field: absent, empty, value
    pub cohort_field: [u32; 3],
    /// daystart: absent, empty object, days only, full
    pub daystart: [u32; 4],
    pub manifest_absent_permille: u32,
    pub xssi_prefix_permille: u32,
    pub big_size_permille: u32,
    pub extra_attrs_permille: u32,
    /// ETag encodings: plain, quoted, weak-quoted
    pub etag_enc: [u32; 3],
    /// the server signs at all (false = unsigned proxy always)
    pub signs: bool,
    /// the response lists one app id twice (each entry with its own outcome)
    pub dup_app_permille: u32,
}

impl Default for ServerWeights {
    fn default() -> Self {
        ServerWeights {
            app_outcome: [50, 35, 5, 5, 5],
            app_list: [70, 10, 10, 10],
            cohort_field: [40, 20, 40],
            daystart: [10, 10, 20, 60],
            manifest_absent_permille: 100,
            xssi_prefix_permille: 150,
            big_size_permille: 200,
            extra_attrs_permille: 200,
            etag_enc: [1, 1, 1],
            signs: true,
            dup_app_permille: 0,
        }
    }
}

#[derive(Clone, Debug, Serialize, Deserialize)]
#[serde(default)]
pub struct Profile {
    pub name: String,
    pub mode: Mode,
    pub server: ServerKind,
    /// 0 = never, 1000 = always, else per-run chance that CUP is configured
    pub cup_permille: u32,
    pub max_steps: u64,
    /// stop the run once this many UpdateCheckResults were received (and the machine is idle again)
    pub max_checks: u32,
    pub max_lifetimes: u32,
    pub apps_max: u32,
    /// chance that an app is invalid (empty id or version 0)
    pub invalid_app_permille: u32,
    /// chance, per control request, that it is made right at the start of the lifetime (before or
    /// around the machine's first poll) instead of inside an in-flight operation
    pub request_at_start_permille: u32,
    pub preset_permille: u32,
    pub extra_fields_permille: u32,
    pub system_app_nonzero_permille: u32,
    pub net: NetRates,
    /// restrict adversary to given request kinds ("" = all)
    pub disk: DiskRates,
    pub policy: PolicyWeights,
    pub installer: InstallerWeights,
    pub srv: ServerWeights,
    /// latency classes for env ops: zero, small, large (weights)
    pub latency: [u32; 3],
    /// timer lateness classes: on time, small, medium, huge
    pub lateness: [u32; 4],
    /// consumer: chance per received event that the next poll is delayed (lazy consumer)
    pub lazy_consumer_permille: u32,
    pub spurious_poll_permille: u32,
    /// control clients
    pub clients_max: u32,
    pub requests_max: u32,
    pub drop_handles_permille: u32,
    pub drop_stream_permille: u32,
    /// crash: per run chance of a crash at a drawn interaction ordinal
    pub crash_permille: u32,
    pub crash_horizon: u64,
    /// clock: per-run chance of jumps, and class weights: small, backwards, pre-epoch, sub-us, far future
    pub clock_jump_permille: u32,
    pub clock_classes: [u32; 5],
    /// initial wall clock class: normal, pre-epoch, far future, sub-us offsets
    pub wall_init: [u32; 4],
    /// probes after commits
    pub probes: bool,
    /// service url classes enabled (0 = only the plain one)
    pub url_variants: bool,
    pub bad_url_permille: u32,
    /// metrics sink error chance
    pub metrics_err_permille: u32,
    /// version after reboot: target, other (weights)
    pub reboot_version: [u32; 2],
    /// timing deltas (seconds) the policy may return for the next check
    pub next_delays_s: Vec<u64>,
    /// storage ops instantaneous regardless of disk.slow (needed by differential rules)
    pub logging: bool,
    /// C17: admin reconfigurations of the mock server per run (max)
    pub admin_reconfigs: u32,
    /// server key configuration: same latest, client's key historical at the server,
    /// server lacks the key, same id with another key
    pub key_server: [u32; 4],
    /// a neighbour task of the embedder takes the shared storage / app-set lock for a while
    pub neighbour_permille: u32,
    /// the embedder's app list repeats an app id (with differing cohort / version)
    pub dup_app_permille: u32,
    /// the neighbour task, holding the app-set lock, changes an app's cohort hint
    pub neighbour_mutates_permille: u32,
    /// ... and its version
    pub neighbour_bumps_version: bool,
    /// a control client makes all its requests through one handle object (no clone per request)
    pub sticky_handle_permille: u32,
    /// a control client abandons a request right after starting it
    pub abandon_request_permille: u32,
    /// the observer takes the lock of the shared storage while handling an event
    pub observer_reads_storage_permille: u32,
    /// a timer whose deadline is already reached is ready at its first poll
    pub timer_immediate_permille: u32,
}

impl Profile {
    pub fn base(name: &str) -> Self {
        Profile {
            name: name.to_string(),
            mode: Mode::Start,
            server: ServerKind::Ref,
            cup_permille: 500,
            max_steps: 3000,
            max_checks: 3,
            max_lifetimes: 1,
            apps_max: 3,
            invalid_app_permille: 0,
            request_at_start_permille: 0,
            preset_permille: 200,
            extra_fields_permille: 200,
            system_app_nonzero_permille: 0,
            net: NetRates::clean(),
            disk: DiskRates::clean(),
            policy: PolicyWeights::default(),
            installer: InstallerWeights::default(),
            srv: ServerWeights::default(),
            latency: [3, 5, 2],
            lateness: [6, 2, 1, 1],
            lazy_consumer_permille: 100,
            spurious_poll_permille: 50,
            clients_max: 0,
            requests_max: 0,
            drop_handles_permille: 0,
            drop_stream_permille: 0,
            crash_permille: 0,
            crash_horizon: 200,
            clock_jump_permille: 0,
            clock_classes: [1, 1, 1, 1, 1],
            wall_init: [1, 0, 0, 0],
            probes: false,
            url_variants: false,
            bad_url_permille: 0,
            metrics_err_permille: 40,
            reboot_version: [3, 1],
            next_delays_s: vec![0, 1, 60, 3600, 18000],
            logging: false,
            admin_reconfigs: 0,
            key_server: [80, 15, 3, 2],
            neighbour_permille: 0,
            dup_app_permille: 0,
            neighbour_mutates_permille: 0,
            neighbour_bumps_version: false,
            sticky_handle_permille: 0,
            abandon_request_permille: 0,
            observer_reads_storage_permille: 0,
            timer_immediate_permille: 0,
        }
    }
}

// older replay files lack knobs added later: missing fields take the base value
impl Default for Profile {
    fn default() -> Self {
        Profile::base("default")
    }
}
impl Default for NetRates {
    fn default() -> Self {
        NetRates::clean()
    }
}
impl Default for DiskRates {
    fn default() -> Self {
        DiskRates::clean()
    }
}
