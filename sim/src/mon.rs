//! Monitor framework: violations, counters, and helpers shared by the per-property monitors.

use crate::exec::RunOut;
use crate::hist::*;
use serde_json::{json, Map, Value};
use std::collections::BTreeMap;

#[derive(Clone, Debug, PartialEq, Eq)]
pub struct Violation {
    pub prop: String,
    pub rule: String,
    pub site: String,
    pub detail: String,
}

#[derive(Default)]
pub struct MonOut {
    pub violations: Vec<Violation>,
    /// rule evaluation counts (antecedent exercised)
    pub counters: BTreeMap<String, u64>,
    /// abstract signatures of the non-trivial cases this run exercised (for distinct counting)
    pub sigs: Vec<String>,
    /// one human-readable sample of what was checked
    pub sample: Option<Value>,
}

impl MonOut {
    pub fn count(&mut self, k: &str) {
        *self.counters.entry(k.to_string()).or_insert(0) += 1;
    }
    pub fn count_n(&mut self, k: &str, n: u64) {
        *self.counters.entry(k.to_string()).or_insert(0) += n;
    }
    pub fn viol(&mut self, prop: &str, rule: &str, site: impl Into<String>, detail: impl Into<String>) {
        self.violations.push(Violation {
            prop: prop.to_string(),
            rule: format!("{prop}.{rule}"),
            site: site.into(),
            detail: detail.into(),
        });
    }
    pub fn sig(&mut self, s: impl Into<String>) {
        self.sigs.push(s.into());
    }
}

pub type Monitor = fn(&RunOut) -> MonOut;

/// What a faithful parse of `doc` must announce, written from the v3 response grammar:
/// every protocol field as the document says; extension attributes kept where the protocol
/// allows them (app, updatecheck, action, package); `ping` reduced to presence because the
/// library's Ping type exposes no field.
pub fn expected_announce(doc: &Value) -> Option<Value> {
    let r = doc.get("response")?.as_object()?;
    let mut top = Map::new();
    top.insert("protocol".into(), r.get("protocol")?.clone());
    if let Some(s) = r.get("server") {
        top.insert("server".into(), s.clone());
    }
    if let Some(d) = r.get("daystart") {
        let mut m = Map::new();
        for k in ["elapsed_days", "elapsed_seconds"] {
            if let Some(v) = d.get(k) {
                m.insert(k.into(), v.clone());
            }
        }
        top.insert("daystart".into(), Value::Object(m));
    }
    let mut apps = vec![];
    for a in r.get("app")?.as_array()? {
        let mut m = a.as_object()?.clone();
        if m.contains_key("ping") {
            m.insert("ping".into(), json!({"__present": true}));
        }
        if let Some(ev) = m.get("event").and_then(|e| e.as_array()).cloned() {
            m.insert(
                "event".into(),
                Value::Array(ev.iter().map(|e| json!({"status": e.get("status").cloned().unwrap_or(Value::Null)})).collect()),
            );
        }
        if let Some(u) = m.get("updatecheck").and_then(|u| u.as_object()).cloned() {
            let mut um = u.clone();
            if let Some(urls) = u.get("urls") {
                let list: Vec<Value> = urls
                    .get("url")
                    .and_then(|x| x.as_array())
                    .map(|x| x.iter().map(|y| json!({"codebase": y.get("codebase").cloned().unwrap_or(Value::Null)})).collect())
                    .unwrap_or_default();
                um.insert("urls".into(), json!({ "url": list }));
            }
            if let Some(mf) = u.get("manifest") {
                let mut mm = Map::new();
                mm.insert("version".into(), mf.get("version").cloned().unwrap_or(Value::Null));
                mm.insert(
                    "actions".into(),
                    json!({"action": mf.get("actions").and_then(|a| a.get("action")).cloned().unwrap_or(json!([]))}),
                );
                mm.insert(
                    "packages".into(),
                    json!({"package": mf.get("packages").and_then(|a| a.get("package")).cloned().unwrap_or(json!([]))}),
                );
                um.insert("manifest".into(), Value::Object(mm));
            }
            m.insert("updatecheck".into(), Value::Object(um));
        }
        apps.push(Value::Object(m));
    }
    top.insert("app".into(), Value::Array(apps));
    Some(Value::Object(top))
}

/// ids of the apps the document offers an update ("ok" updatecheck), in document order
pub fn offered_apps(doc: &Value) -> Vec<String> {
    doc.get("response")
        .and_then(|r| r.get("app"))
        .and_then(|a| a.as_array())
        .map(|apps| {
            apps.iter()
                .filter(|a| a.get("updatecheck").and_then(|u| u.get("status")).and_then(|s| s.as_str()) == Some("ok"))
                .filter_map(|a| a.get("appid").and_then(|s| s.as_str()).map(|s| s.to_string()))
                .collect()
        })
        .unwrap_or_default()
}

pub fn doc_apps(doc: &Value) -> Vec<Value> {
    doc.get("response").and_then(|r| r.get("app")).and_then(|a| a.as_array()).cloned().unwrap_or_default()
}

pub fn doc_elapsed_days(doc: &Value) -> Option<u32> {
    doc.get("response")
        .and_then(|r| r.get("daystart"))
        .and_then(|d| d.get("elapsed_days"))
        .and_then(|d| d.as_u64())
        .map(|d| d as u32)
}

pub fn str_field(v: &Value, k: &str) -> Option<String> {
    v.get(k).and_then(|s| s.as_str()).map(|s| s.to_string())
}

pub fn manifest_version(app: &Value) -> Option<String> {
    app.get("updatecheck")
        .and_then(|u| u.get("manifest"))
        .and_then(|m| m.get("version"))
        .and_then(|v| v.as_str())
        .map(|s| s.to_string())
}
