//! Keyed draws: every decision of a run is `mix(run_seed, key) mod n`, where `key` is the
//! stable identity of the thing decided. A draw's value does not depend on how many other
//! draws happened before it, which keeps differential re-runs aligned. Value 0 is always the
//! simplest alternative (no fault, zero latency, ...).

use std::collections::BTreeMap;

pub fn splitmix(mut x: u64) -> u64 {
    x = x.wrapping_add(0x9E37_79B9_7F4A_7C15);
    let mut z = x;
    z = (z ^ (z >> 30)).wrapping_mul(0xBF58_476D_1CE4_E5B9);
    z = (z ^ (z >> 27)).wrapping_mul(0x94D0_49BB_1331_11EB);
    z ^ (z >> 31)
}

pub fn hash_str(s: &str) -> u64 {
    // FNV-1a 64
    let mut h: u64 = 0xcbf2_9ce4_8422_2325;
    for b in s.as_bytes() {
        h ^= *b as u64;
        h = h.wrapping_mul(0x0000_0100_0000_01B3);
    }
    h
}

pub fn mix(seed: u64, key: &str) -> u64 {
    splitmix(splitmix(seed) ^ hash_str(key))
}

/// One logged decision: (key, number of alternatives, chosen value).
pub type Decision = (String, u64, u64);

#[derive(Clone, Debug, Default)]
pub struct Draws {
    pub seed: u64,
    /// Forced values (replay files, strata, minimisation). Value is taken mod n.
    pub overrides: BTreeMap<String, u64>,
    /// Prefix overrides: any key starting with the prefix is forced (used to zero fault families).
    pub prefix_overrides: Vec<(String, u64)>,
    pub log: Vec<Decision>,
    pub log_enabled: bool,
    /// every decision that is not forced takes value 0 (self-contained minimised replays)
    pub default_zero: bool,
}

impl Draws {
    pub fn new(seed: u64) -> Self {
        Draws {
            seed,
            overrides: BTreeMap::new(),
            prefix_overrides: Vec::new(),
            log: Vec::new(),
            log_enabled: true,
            default_zero: false,
        }
    }

    fn forced(&self, key: &str) -> Option<u64> {
        if let Some(v) = self.overrides.get(key) {
            return Some(*v);
        }
        for (p, v) in &self.prefix_overrides {
            if key.starts_with(p.as_str()) {
                return Some(*v);
            }
        }
        if self.default_zero {
            return Some(0);
        }
        None
    }

    /// Uniform draw in 0..n.
    pub fn draw(&mut self, key: &str, n: u64) -> u64 {
        if n <= 1 {
            return 0;
        }
        let v = match self.forced(key) {
            Some(v) => v % n,
            None => mix(self.seed, key) % n,
        };
        if self.log_enabled {
            self.log.push((key.to_string(), n, v));
        }
        v
    }

    /// Weighted draw; returns the index. Index 0 should be the simplest alternative.
    /// A zero weight disables an alternative (unless forced).
    pub fn weighted(&mut self, key: &str, weights: &[u32]) -> usize {
        let n = weights.len() as u64;
        if n <= 1 {
            return 0;
        }
        let v = match self.forced(key) {
            Some(v) => v % n,
            None => {
                let total: u64 = weights.iter().map(|w| *w as u64).sum();
                if total == 0 {
                    0
                } else {
                    let mut r = mix(self.seed, key) % total;
                    let mut idx = 0u64;
                    for (i, w) in weights.iter().enumerate() {
                        if r < *w as u64 {
                            idx = i as u64;
                            break;
                        }
                        r -= *w as u64;
                    }
                    idx
                }
            }
        };
        if self.log_enabled {
            self.log.push((key.to_string(), n, v));
        }
        v as usize
    }

    /// True with probability permille/1000. Logged as a 2-way decision (1 = fired).
    pub fn chance(&mut self, key: &str, permille: u32) -> bool {
        let v = match self.forced(key) {
            Some(v) => v % 2,
            None => {
                if permille == 0 {
                    0
                } else if mix(self.seed, key) % 1000 < permille as u64 {
                    1
                } else {
                    0
                }
            }
        };
        if self.log_enabled && (v == 1 || permille > 0) {
            self.log.push((key.to_string(), 2, v));
        }
        v == 1
    }

    /// A raw 64-bit value for filling data (not logged; not minimisable). Only for payload
    /// bytes whose identity does not matter.
    pub fn raw(&self, key: &str) -> u64 {
        mix(self.seed, key)
    }
}
