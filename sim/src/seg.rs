//! Shared segmentation of a history into lifetimes, checks, exchanges and reboot waits, using
//! only environment-side observations.

use crate::hist::*;
use serde_json::Value;

#[derive(Clone, Debug)]
pub struct Exchange {
    pub id: u64,
    pub send_idx: usize,
    pub deliver_idx: Option<usize>,
    pub kind: ReqKind,
    pub uri: String,
    pub headers: Vec<(String, String)>,
    pub body_json: Option<Value>,
    pub body_sha: String,
    pub body_len: usize,
    pub result: Option<Result<DeliveredResp, NetErr>>,
}

impl Exchange {
    pub fn delivered(&self) -> Option<&DeliveredResp> {
        match &self.result {
            Some(Ok(r)) => Some(r),
            _ => None,
        }
    }
    pub fn session_id(&self) -> Option<String> {
        self.body_json
            .as_ref()
            .and_then(|b| b.get("request"))
            .and_then(|r| r.get("sessionid"))
            .and_then(|s| s.as_str())
            .map(|s| s.to_string())
    }
    pub fn request_id(&self) -> Option<String> {
        self.body_json
            .as_ref()
            .and_then(|b| b.get("request"))
            .and_then(|r| r.get("requestid"))
            .and_then(|s| s.as_str())
            .map(|s| s.to_string())
    }
    pub fn apps(&self) -> Vec<Value> {
        self.body_json
            .as_ref()
            .and_then(|b| b.get("request"))
            .and_then(|r| r.get("app"))
            .and_then(|a| a.as_array())
            .cloned()
            .unwrap_or_default()
    }
}

#[derive(Clone, Debug)]
pub struct Life {
    pub life: u32,
    pub start: usize,
    pub end: usize, // exclusive index into hist
    pub mode_start: bool,
    pub cup: bool,
    pub os_version: String,
    pub service_url: String,
    pub presets: Vec<AppRec>,
    pub system_idx: usize,
    pub boot: u32,
    pub key_id: u64,
    pub versions: Vec<Vec<u32>>,
    pub end_why: String,
    pub started: bool,
}

pub fn lives(h: &History) -> Vec<Life> {
    let mut out: Vec<Life> = vec![];
    for (i, r) in h.iter().enumerate() {
        match &r.kind {
            Kind::LifeStart { mode, os_version, cup, service_url, presets, system_idx, boot, key_id, versions, .. } => {
                out.push(Life {
                    life: r.life,
                    start: i,
                    end: h.len(),
                    mode_start: mode == "start",
                    cup: *cup,
                    os_version: os_version.clone(),
                    service_url: service_url.clone(),
                    presets: presets.clone(),
                    system_idx: *system_idx,
                    boot: *boot,
                    key_id: *key_id,
                    versions: versions.clone(),
                    end_why: String::new(),
                    started: false,
                });
            }
            Kind::Started => {
                if let Some(l) = out.last_mut() {
                    l.started = true;
                }
            }
            Kind::LifeEnd { why } => {
                if let Some(l) = out.last_mut() {
                    l.end = i + 1;
                    l.end_why = why.clone();
                }
            }
            _ => {}
        }
    }
    out
}

/// All HTTP exchanges whose send lies in [from, to).
pub fn exchanges(h: &History, from: usize, to: usize) -> Vec<Exchange> {
    let mut out: Vec<Exchange> = vec![];
    for i in from..to.min(h.len()) {
        match &h[i].kind {
            Kind::HttpSend { id, uri, headers, body_json, body_sha, body_len, kind, .. } => {
                out.push(Exchange {
                    id: *id,
                    send_idx: i,
                    deliver_idx: None,
                    kind: kind.clone(),
                    uri: uri.clone(),
                    headers: headers.clone(),
                    body_json: body_json.clone(),
                    body_sha: body_sha.clone(),
                    body_len: *body_len,
                    result: None,
                });
            }
            _ => {}
        }
    }
    // deliveries may lie beyond `to` only if the segment was cut; search to the end of the life
    for e in out.iter_mut() {
        let life = h[e.send_idx].life;
        for j in e.send_idx + 1..h.len() {
            if h[j].life != life {
                break;
            }
            if let Kind::HttpDeliver { id, result } = &h[j].kind {
                if *id == e.id {
                    e.deliver_idx = Some(j);
                    e.result = Some(result.clone());
                    break;
                }
            }
        }
    }
    out
}

#[derive(Clone, Debug)]
pub struct Check {
    pub life: u32,
    pub mode_start: bool,
    pub cup: bool,
    /// index of the positive update_check_allowed record (start mode) or of Started (one-shot)
    pub start: usize,
    /// exclusive end: index of the Idle / WaitingForReboot event, StreamEnd, or life end
    pub end: usize,
    pub params: Option<ParamsRec>,
    pub source_asked: Option<Src>,
    /// events received within [start, end)
    pub events: Vec<(usize, EventRec)>,
    pub result: Option<Result<Vec<AppRespRec>, ErrRec>>,
    pub result_idx: Option<usize>,
    /// true if the result was received and the segment ended in Idle/WaitingForReboot/StreamEnd
    pub complete: bool,
    /// how the segment ended: "idle", "waiting_for_reboot", "stream_end", "cut"
    pub ended: String,
}

#[derive(Clone, Debug)]
pub struct RebootWait {
    pub life: u32,
    pub start: usize, // index of the WaitingForReboot event
    pub end: usize,   // exclusive: index of the Idle event or life end
    pub complete: bool,
}

pub fn checks(h: &History, l: &Life) -> (Vec<Check>, Vec<RebootWait>) {
    let mut out = vec![];
    let mut waits = vec![];
    let mut cur: Option<Check> = None;
    let mut cur_wait: Option<RebootWait> = None;
    for i in l.start..l.end {
        let r = &h[i];
        match &r.kind {
            Kind::Started if !l.mode_start => {
                cur = Some(Check {
                    life: l.life,
                    mode_start: false,
                    cup: l.cup,
                    start: i,
                    end: l.end,
                    params: Some(ParamsRec {
                        source: Src::Scheduled,
                        use_configured_proxies: false,
                        disable_updates: false,
                        same_version: false,
                    }),
                    source_asked: None,
                    events: vec![],
                    result: None,
                    result_idx: None,
                    complete: false,
                    ended: "cut".into(),
                });
            }
            Kind::Policy(PolicyRec::CheckAllowed { answer, source, .. }) if l.mode_start => {
                if let Some(p) = answer.params() {
                    if let Some(mut c) = cur.take() {
                        c.end = i;
                        out.push(c);
                    }
                    cur = Some(Check {
                        life: l.life,
                        mode_start: true,
                        cup: l.cup,
                        start: i,
                        end: l.end,
                        params: Some(p.clone()),
                        source_asked: Some(*source),
                        events: vec![],
                        result: None,
                        result_idx: None,
                        complete: false,
                        ended: "cut".into(),
                    });
                }
            }
            Kind::Event(ev) => {
                let is_idle = matches!(ev, EventRec::State(StateRec::Idle));
                let is_wfr = matches!(ev, EventRec::State(StateRec::WaitingForReboot));
                if let Some(c) = cur.as_mut() {
                    if is_idle || is_wfr {
                        let mut c = cur.take().unwrap();
                        c.end = i;
                        c.complete = c.result.is_some();
                        c.ended = if is_idle { "idle".into() } else { "waiting_for_reboot".into() };
                        out.push(c);
                        if is_wfr {
                            cur_wait = Some(RebootWait { life: l.life, start: i, end: l.end, complete: false });
                        }
                    } else {
                        if let EventRec::Result(res) = ev {
                            c.result = Some(res.clone());
                            c.result_idx = Some(i);
                        }
                        c.events.push((i, ev.clone()));
                    }
                } else if is_idle {
                    if let Some(mut w) = cur_wait.take() {
                        w.end = i;
                        w.complete = true;
                        waits.push(w);
                    }
                }
            }
            Kind::StreamEnd => {
                if let Some(mut c) = cur.take() {
                    c.end = i;
                    c.complete = c.result.is_some();
                    c.ended = "stream_end".into();
                    out.push(c);
                }
            }
            _ => {}
        }
    }
    if let Some(c) = cur.take() {
        out.push(c);
    }
    if let Some(w) = cur_wait.take() {
        waits.push(w);
    }
    (out, waits)
}

pub fn header<'a>(headers: &'a [(String, Vec<u8>)], name: &str) -> Vec<&'a Vec<u8>> {
    headers.iter().filter(|(k, _)| k.eq_ignore_ascii_case(name)).map(|(_, v)| v).collect()
}

pub fn is_2xx(status: u16) -> bool {
    (200..300).contains(&status)
}

/// Whether a delivered response counts as "obtained" by a client with/without CUP:
/// authenticated (or CUP off).
pub fn accepted_by_cup(cup: bool, r: &DeliveredResp) -> bool {
    if cup {
        r.authentic == Some(true)
    } else {
        true
    }
}
