//! Conversions from the library's public types into plain history data.

use crate::hist::*;
use omaha_client::common::{App, CheckTiming, ProtocolState, UpdateCheckSchedule, UserCounting};
use omaha_client::metrics::{ClockType, Metrics, UpdateCheckFailureReason};
use omaha_client::policy::{CheckDecision, UpdateDecision};
use omaha_client::protocol::request::InstallSource;
use omaha_client::protocol::response as presp;
use omaha_client::request_builder::RequestParams;
use omaha_client::state_machine::{
    update_check, OmahaRequestError, State, StateMachineEvent, UpdateCheckError,
};
use omaha_client::time::PartialComplexTime;
use serde_json::{json, Map, Value};
use std::sync::OnceLock;
use std::time::{Duration, Instant, SystemTime};

static BASE: OnceLock<Instant> = OnceLock::new();

/// Process-wide base of simulated monotonic time: "now + 10 years", so that any subtraction
/// the library performs stays far from the platform's zero.
pub fn base_instant() -> Instant {
    *BASE.get_or_init(|| Instant::now() + Duration::from_secs(10 * 365 * 86400))
}

pub fn instant_from_offset(ns: i64) -> Instant {
    if ns >= 0 {
        base_instant() + Duration::from_nanos(ns as u64)
    } else {
        base_instant() - Duration::from_nanos(ns.unsigned_abs())
    }
}

pub fn instant_to_offset(i: Instant) -> i64 {
    let b = base_instant();
    if i >= b {
        i.duration_since(b).as_nanos().min(i64::MAX as u128) as i64
    } else {
        -(b.duration_since(i).as_nanos().min(i64::MAX as u128) as i64)
    }
}

pub fn systime_from_ns(ns: i128) -> SystemTime {
    if ns >= 0 {
        let secs = (ns / 1_000_000_000) as u64;
        let sub = (ns % 1_000_000_000) as u32;
        SystemTime::UNIX_EPOCH + Duration::new(secs, sub)
    } else {
        let a = -ns;
        let secs = (a / 1_000_000_000) as u64;
        let sub = (a % 1_000_000_000) as u32;
        SystemTime::UNIX_EPOCH - Duration::new(secs, sub)
    }
}

pub fn systime_to_ns(t: SystemTime) -> i128 {
    match t.duration_since(SystemTime::UNIX_EPOCH) {
        Ok(d) => d.as_nanos() as i128,
        Err(e) => -(e.duration().as_nanos() as i128),
    }
}

pub fn pct(t: &PartialComplexTime) -> TimeRec {
    let (w, m) = t.destructure();
    TimeRec {
        wall: w.map(systime_to_ns),
        mono: m.map(instant_to_offset),
    }
}

pub fn timing(t: &CheckTiming) -> TimingRec {
    TimingRec {
        time: pct(&t.time),
        min_wait_ns: t.minimum_wait.map(|d| d.as_nanos()),
    }
}

pub fn sched(s: &UpdateCheckSchedule) -> SchedRec {
    SchedRec {
        last_update_time: s.last_update_time.as_ref().map(pct),
        last_update_check_time: s.last_update_check_time.as_ref().map(pct),
        next_update_time: s.next_update_time.as_ref().map(timing),
    }
}

pub fn proto(p: &ProtocolState) -> ProtoRec {
    ProtoRec {
        poll_ns: p.server_dictated_poll_interval.map(|d| d.as_nanos()),
        failures: p.consecutive_failed_update_checks,
        proxied: p.consecutive_proxied_requests,
    }
}

pub fn app(a: &App) -> AppRec {
    let UserCounting::ClientRegulatedByDate(uc) = a.user_counting;
    AppRec {
        id: a.id.clone(),
        version: a.version.to_string(),
        fingerprint: a.fingerprint.clone(),
        cohort: a.cohort.id.clone(),
        cohorthint: a.cohort.hint.clone(),
        cohortname: a.cohort.name.clone(),
        uc,
        extra: a.extra_fields.iter().map(|(k, v)| (k.clone(), v.clone())).collect(),
    }
}

pub fn apps(a: &[App]) -> Vec<AppRec> {
    a.iter().map(app).collect()
}

pub fn src(s: InstallSource) -> Src {
    match s {
        InstallSource::OnDemand => Src::OnDemand,
        InstallSource::ScheduledTask => Src::Scheduled,
    }
}

pub fn params(p: &RequestParams) -> ParamsRec {
    ParamsRec {
        source: src(p.source),
        use_configured_proxies: p.use_configured_proxies,
        disable_updates: p.disable_updates,
        same_version: p.offer_update_if_same_version,
    }
}

pub fn params_back(p: &ParamsRec) -> RequestParams {
    RequestParams {
        source: match p.source {
            Src::OnDemand => InstallSource::OnDemand,
            Src::Scheduled => InstallSource::ScheduledTask,
        },
        use_configured_proxies: p.use_configured_proxies,
        disable_updates: p.disable_updates,
        offer_update_if_same_version: p.same_version,
    }
}

pub fn check_decision(d: &CheckDecision) -> CheckDecisionRec {
    match d {
        CheckDecision::Ok(p) => CheckDecisionRec::Ok(params(p)),
        CheckDecision::OkUpdateDeferred(p) => CheckDecisionRec::OkUpdateDeferred(params(p)),
        CheckDecision::TooSoon => CheckDecisionRec::TooSoon,
        CheckDecision::ThrottledByPolicy => CheckDecisionRec::ThrottledByPolicy,
        CheckDecision::DeniedByPolicy => CheckDecisionRec::DeniedByPolicy,
    }
}

pub fn update_decision(d: &UpdateDecision) -> UpdateDecisionRec {
    match d {
        UpdateDecision::Ok => UpdateDecisionRec::Ok,
        UpdateDecision::DeferredByPolicy => UpdateDecisionRec::Deferred,
        UpdateDecision::DeniedByPolicy => UpdateDecisionRec::Denied,
    }
}

pub fn state(s: &State) -> StateRec {
    match s {
        State::Idle => StateRec::Idle,
        State::CheckingForUpdates(s) => StateRec::CheckingForUpdates(src(*s)),
        State::ErrorCheckingForUpdate => StateRec::ErrorCheckingForUpdate,
        State::NoUpdateAvailable => StateRec::NoUpdateAvailable,
        State::InstallationDeferredByPolicy => StateRec::InstallationDeferredByPolicy,
        State::InstallingUpdate => StateRec::InstallingUpdate,
        State::WaitingForReboot => StateRec::WaitingForReboot,
        State::InstallationError => StateRec::InstallationError,
    }
}

pub fn action(a: &update_check::Action) -> ActionRec {
    match a {
        update_check::Action::NoUpdate => ActionRec::NoUpdate,
        update_check::Action::DeferredByPolicy => ActionRec::DeferredByPolicy,
        update_check::Action::DeniedByPolicy => ActionRec::DeniedByPolicy,
        update_check::Action::InstallPlanExecutionError => ActionRec::InstallPlanExecutionError,
        update_check::Action::Updated => ActionRec::Updated,
    }
}

pub fn err(e: &UpdateCheckError) -> ErrRec {
    match e {
        UpdateCheckError::OmahaRequest(r) => match r {
            OmahaRequestError::Json(_) => ErrRec::Json,
            OmahaRequestError::HttpBuilder(_) => ErrRec::HttpBuilder,
            OmahaRequestError::CupDecoration(_) => ErrRec::CupDecoration,
            OmahaRequestError::CupValidation(_) => ErrRec::CupValidation,
            OmahaRequestError::HttpTransport(_) => ErrRec::HttpTransport,
            OmahaRequestError::HttpStatus(s) => ErrRec::HttpStatus(s.as_u16()),
        },
        UpdateCheckError::ResponseParser(_) => ErrRec::ResponseParser,
        UpdateCheckError::InstallPlan(_) => ErrRec::InstallPlan,
    }
}

fn status_value(s: &presp::OmahaStatus) -> Value {
    match s {
        presp::OmahaStatus::Ok => json!("ok"),
        presp::OmahaStatus::Restricted => json!("restricted"),
        presp::OmahaStatus::NoUpdate => json!("noupdate"),
        presp::OmahaStatus::Error(e) => json!(e),
    }
}

fn put(m: &mut Map<String, Value>, k: &str, v: Option<Value>) {
    if let Some(v) = v {
        m.insert(k.to_string(), v);
    }
}

/// Re-encode the announced (parsed) response as JSON, field by field, in the document's own
/// vocabulary, so a monitor can compare it with what the server sent.
pub fn response_value(r: &presp::Response) -> Value {
    let mut top = Map::new();
    top.insert("protocol".into(), json!(r.protocol_version));
    put(&mut top, "server", r.server.as_ref().map(|s| json!(s)));
    if let Some(d) = &r.daystart {
        let mut m = Map::new();
        put(&mut m, "elapsed_days", d.elapsed_days.map(|x| json!(x)));
        put(&mut m, "elapsed_seconds", d.elapsed_seconds.map(|x| json!(x)));
        top.insert("daystart".into(), Value::Object(m));
    }
    let mut apps = vec![];
    for a in &r.apps {
        let mut m = Map::new();
        m.insert("appid".into(), json!(a.id));
        m.insert("status".into(), status_value(&a.status));
        put(&mut m, "cohort", a.cohort.id.as_ref().map(|s| json!(s)));
        put(&mut m, "cohorthint", a.cohort.hint.as_ref().map(|s| json!(s)));
        put(&mut m, "cohortname", a.cohort.name.as_ref().map(|s| json!(s)));
        // Ping's status field is private; presence only.
        if a.ping.is_some() {
            m.insert("ping".into(), json!({"__present": true}));
        }
        if let Some(ev) = &a.events {
            m.insert(
                "event".into(),
                Value::Array(ev.iter().map(|e| json!({"status": status_value(&e.status)})).collect()),
            );
        }
        if let Some(u) = &a.update_check {
            let mut um = Map::new();
            um.insert("status".into(), status_value(&u.status));
            put(&mut um, "info", u.info.as_ref().map(|s| json!(s)));
            if let Some(urls) = &u.urls {
                um.insert(
                    "urls".into(),
                    json!({"url": urls.url.iter().map(|x| json!({"codebase": x.codebase})).collect::<Vec<_>>() }),
                );
            }
            if let Some(mf) = &u.manifest {
                let mut mm = Map::new();
                mm.insert("version".into(), json!(mf.version));
                let actions: Vec<Value> = mf
                    .actions
                    .action
                    .iter()
                    .map(|ac| {
                        let mut am = Map::new();
                        put(&mut am, "event", ac.event.as_ref().map(|s| json!(s)));
                        put(&mut am, "run", ac.run.as_ref().map(|s| json!(s)));
                        for (k, v) in &ac.extra_attributes {
                            am.insert(k.clone(), v.clone());
                        }
                        Value::Object(am)
                    })
                    .collect();
                mm.insert("actions".into(), json!({ "action": actions }));
                let pkgs: Vec<Value> = mf
                    .packages
                    .package
                    .iter()
                    .map(|p| {
                        let mut pm = Map::new();
                        pm.insert("name".into(), json!(p.name));
                        pm.insert("required".into(), json!(p.required));
                        put(&mut pm, "size", p.size.map(|x| json!(x)));
                        put(&mut pm, "hash", p.hash.as_ref().map(|s| json!(s)));
                        put(&mut pm, "hash_sha256", p.hash_sha256.as_ref().map(|s| json!(s)));
                        pm.insert("fp".into(), json!(p.fingerprint));
                        for (k, v) in &p.extra_attributes {
                            pm.insert(k.clone(), v.clone());
                        }
                        Value::Object(pm)
                    })
                    .collect();
                mm.insert("packages".into(), json!({ "package": pkgs }));
                um.insert("manifest".into(), Value::Object(mm));
            }
            for (k, v) in &u.extra_attributes {
                um.insert(k.clone(), v.clone());
            }
            m.insert("updatecheck".into(), Value::Object(um));
        }
        for (k, v) in &a.extra_attributes {
            m.insert(k.clone(), v.clone());
        }
        apps.push(Value::Object(m));
    }
    top.insert("app".into(), Value::Array(apps));
    Value::Object(top)
}

pub fn event(e: &StateMachineEvent) -> EventRec {
    match e {
        StateMachineEvent::StateChange(s) => EventRec::State(state(s)),
        StateMachineEvent::ScheduleChange(s) => EventRec::Schedule(sched(s)),
        StateMachineEvent::ProtocolStateChange(p) => EventRec::Proto(proto(p)),
        StateMachineEvent::UpdateCheckResult(r) => EventRec::Result(match r {
            Ok(resp) => Ok(resp
                .app_responses
                .iter()
                .map(|a| {
                    let UserCounting::ClientRegulatedByDate(uc) = a.user_counting;
                    AppRespRec {
                        app_id: a.app_id.clone(),
                        cohort: a.cohort.id.clone(),
                        cohorthint: a.cohort.hint.clone(),
                        cohortname: a.cohort.name.clone(),
                        uc,
                        action: action(&a.result),
                    }
                })
                .collect()),
            Err(e) => Err(err(e)),
        }),
        StateMachineEvent::InstallProgressChange(p) => EventRec::Progress(p.progress.to_bits()),
        StateMachineEvent::OmahaServerResponse(r) => EventRec::ServerResponse(response_value(r)),
        StateMachineEvent::InstallerError(e) => {
            EventRec::InstallerError(e.as_ref().map(|e| e.to_string()).unwrap_or_default())
        }
    }
}

pub fn metric(m: &Metrics) -> MetricRec {
    match m {
        Metrics::UpdateCheckResponseTime { response_time, successful } => {
            MetricRec::UpdateCheckResponseTime { ns: response_time.as_nanos(), successful: *successful }
        }
        Metrics::UpdateCheckInterval { interval, clock, install_source } => MetricRec::UpdateCheckInterval {
            ns: interval.as_nanos(),
            mono: matches!(clock, ClockType::Monotonic),
            source: src(*install_source),
        },
        Metrics::SuccessfulUpdateDuration(d) => MetricRec::SuccessfulUpdateDuration(d.as_nanos()),
        Metrics::SuccessfulUpdateFromFirstSeen(d) => MetricRec::SuccessfulUpdateFromFirstSeen(d.as_nanos()),
        Metrics::FailedUpdateDuration(d) => MetricRec::FailedUpdateDuration(d.as_nanos()),
        Metrics::UpdateCheckFailureReason(r) => MetricRec::UpdateCheckFailureReason(
            match r {
                UpdateCheckFailureReason::Omaha => "Omaha",
                UpdateCheckFailureReason::Network => "Network",
                UpdateCheckFailureReason::Proxy => "Proxy",
                UpdateCheckFailureReason::Configuration => "Configuration",
                UpdateCheckFailureReason::Internal => "Internal",
            }
            .to_string(),
        ),
        Metrics::RequestsPerCheck { count, successful } => {
            MetricRec::RequestsPerCheck { count: *count, successful: *successful }
        }
        Metrics::AttemptsToSuccessfulCheck(n) => MetricRec::AttemptsToSuccessfulCheck(*n),
        Metrics::AttemptsToSuccessfulInstall { count, successful } => {
            MetricRec::AttemptsToSuccessfulInstall { count: *count, successful: *successful }
        }
        Metrics::WaitedForRebootDuration(d) => MetricRec::WaitedForRebootDuration(d.as_nanos()),
        Metrics::FailedBootAttempts(n) => MetricRec::FailedBootAttempts(*n),
        Metrics::OmahaEventLost(e) => {
            // Event's enums serialise as their protocol numbers; go through serde to avoid
            // depending on enum layouts.
            let v = serde_json::to_value(e).unwrap_or(Value::Null);
            MetricRec::OmahaEventLost {
                etype: v.get("eventtype").and_then(|x| x.as_u64()).unwrap_or(255) as u8,
                result: v.get("eventresult").and_then(|x| x.as_u64()).unwrap_or(255) as u8,
                errorcode: v.get("errorcode").and_then(|x| x.as_i64()).map(|x| x as i32),
            }
        }
    }
}
