//! C16, "never a panic or a stack overflow (deeply nested values)": a stack overflow aborts the
//! process and cannot be observed from inside it, so deeply nested documents are parsed in child
//! processes of this binary (`sim deep-parse <seed> <from> <to>`), on a thread with the stack an
//! embedder's worker thread has (2 MiB, Rust's default).  A child that dies is a violation; the
//! parent narrows it down to one document index and writes that as the replay file.
//!
//! The documents are valid Omaha responses except for one value nested `depth` levels deep at a
//! position where the response grammar accepts arbitrary JSON (extension attributes of the
//! response / app / updatecheck / manifest / action / package objects, and an unknown member of
//! a urls object), as arrays, as objects, or alternating.

use crate::rng::mix;
use serde_json::json;
use std::process::Command;

pub const DEPTHS: [usize; 9] = [1, 100, 127, 128, 129, 1_000, 20_000, 200_000, 1_000_000];
pub const POSITIONS: [&str; 8] = ["response", "app", "updatecheck", "manifest", "action", "package", "urls", "daystart"];
pub const SHAPES: [&str; 3] = ["arrays", "objects", "alternating"];

pub fn describe(seed: u64, index: u64) -> (usize, &'static str, &'static str, bool) {
    let h = mix(seed, &format!("deep#{index}"));
    // enumerate depth x position x shape first, then vary the remaining choice by hash
    let depth = DEPTHS[(index as usize) % DEPTHS.len()];
    let pos = POSITIONS[(index as usize / DEPTHS.len()) % POSITIONS.len()];
    let shape = SHAPES[(index as usize / (DEPTHS.len() * POSITIONS.len())) % SHAPES.len()];
    (depth, pos, shape, h & 1 == 1)
}

fn nested(depth: usize, shape: &str) -> Vec<u8> {
    let mut v = Vec::with_capacity(depth * 6 + 8);
    let mut closers: Vec<u8> = Vec::with_capacity(depth);
    for i in 0..depth {
        let obj = match shape {
            "arrays" => false,
            "objects" => true,
            _ => i % 2 == 1,
        };
        if obj {
            v.extend_from_slice(b"{\"a\":");
            closers.push(b'}');
        } else {
            v.push(b'[');
            closers.push(b']');
        }
    }
    v.extend_from_slice(b"1");
    while let Some(c) = closers.pop() {
        v.push(c);
    }
    v
}

pub fn document(seed: u64, index: u64) -> Vec<u8> {
    let (depth, pos, shape, prefix) = describe(seed, index);
    let marker = "\"@@DEEP@@\"";
    let deep = json!("@@DEEP@@");
    let mut package = json!({"name": "pkg", "required": true, "size": 1, "hash_sha256": "00", "fp": "f"});
    let mut action = json!({"event": "install", "run": "r"});
    let mut manifest = json!({"version": "2.0.0.0"});
    let mut urls = json!({"url": [{"codebase": "http://dl.example.test/a/"}]});
    let mut updatecheck = json!({"status": "ok"});
    let mut app = json!({"appid": "app-0", "status": "ok", "cohort": "c"});
    let mut daystart = json!({"elapsed_days": 5000, "elapsed_seconds": 1});
    let mut response = json!({"protocol": "3.0", "server": "prod"});
    match pos {
        "package" => package["x_ext"] = deep,
        "action" => action["x_ext"] = deep,
        "manifest" => manifest["x_ext"] = deep,
        "urls" => urls["x_ext"] = deep,
        "updatecheck" => updatecheck["x_ext"] = deep,
        "app" => app["data"] = deep,
        "daystart" => daystart["x_ext"] = deep,
        _ => response["x_ext"] = deep,
    }
    manifest["actions"] = json!({"action": [action]});
    manifest["packages"] = json!({"package": [package]});
    updatecheck["urls"] = urls;
    updatecheck["manifest"] = manifest;
    app["updatecheck"] = updatecheck;
    response["daystart"] = daystart;
    response["app"] = json!([app]);
    let text = serde_json::to_string(&json!({ "response": response })).unwrap();
    let (a, b) = text.split_once(marker).expect("marker");
    let mut out = Vec::new();
    if prefix {
        out.extend_from_slice(b")]}'\n");
    }
    out.extend_from_slice(a.as_bytes());
    out.extend(nested(depth, shape));
    out.extend_from_slice(b.as_bytes());
    out
}

/// child side: parse documents [from, to) on a 2 MiB thread; prints one line per document
pub fn cmd_deep_parse(seed: u64, from: u64, to: u64) -> i32 {
    let h = std::thread::Builder::new()
        .stack_size(2 * 1024 * 1024)
        .spawn(move || {
            for i in from..to {
                let doc = document(seed, i);
                let r = omaha_client::protocol::response::parse_json_response(&doc);
                let (depth, pos, shape, prefix) = describe(seed, i);
                println!("deep {i} depth={depth} pos={pos} shape={shape} prefix={prefix} -> {}", if r.is_ok() { "value" } else { "error" });
            }
        })
        .expect("spawn");
    match h.join() {
        Ok(()) => 0,
        Err(_) => 3,
    }
}

pub struct DeepOutcome {
    pub documents: u64,
    pub values: u64,
    pub errors: u64,
    /// (index, how the child ended)
    pub failures: Vec<(u64, String)>,
}

fn run_child(seed: u64, from: u64, to: u64) -> Result<(u64, u64), String> {
    let exe = std::env::current_exe().map_err(|e| e.to_string())?;
    let out = Command::new(exe).args(["deep-parse", &seed.to_string(), &from.to_string(), &to.to_string()]).output().map_err(|e| e.to_string())?;
    let text = String::from_utf8_lossy(&out.stdout);
    let values = text.lines().filter(|l| l.ends_with("-> value")).count() as u64;
    let errors = text.lines().filter(|l| l.ends_with("-> error")).count() as u64;
    if out.status.success() && values + errors == to - from {
        Ok((values, errors))
    } else {
        let err = String::from_utf8_lossy(&out.stderr);
        let last = err.lines().rev().find(|l| !l.trim().is_empty()).unwrap_or("").chars().take(160).collect::<String>();
        Err(format!("child ended with {} after {} of {} documents: {}", out.status, values + errors, to - from, last))
    }
}

pub fn probe_one(seed: u64, index: u64) -> Result<(u64, u64), String> {
    run_child(seed, index, index + 1)
}

/// parent side
pub fn probe(seed: u64, n: u64) -> DeepOutcome {
    let mut o = DeepOutcome { documents: n, values: 0, errors: 0, failures: vec![] };
    let chunk = 24;
    let mut from = 0;
    while from < n {
        let to = (from + chunk).min(n);
        match run_child(seed, from, to) {
            Ok((v, e)) => {
                o.values += v;
                o.errors += e;
            }
            Err(_) => {
                // narrow down: one child per document
                for i in from..to {
                    match run_child(seed, i, i + 1) {
                        Ok((v, e)) => {
                            o.values += v;
                            o.errors += e;
                        }
                        Err(how) => o.failures.push((i, how)),
                    }
                }
            }
        }
        from = to;
    }
    o
}
