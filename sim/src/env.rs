//! Simulated implementations of the traits the library asks its embedder for.

use crate::conv;
use crate::hist::*;
use crate::world::*;
use futures::future::{BoxFuture, LocalBoxFuture};
use futures::prelude::*;
use omaha_client::app_set::AppSet;
use omaha_client::common::{App, CheckOptions, CheckTiming, ProtocolState, UpdateCheckSchedule};
use omaha_client::cup_ecdsa::RequestMetadata;
use omaha_client::http_request::{self, HttpRequest};
use omaha_client::installer::{AppInstallResult, Installer, Plan, ProgressObserver};
use omaha_client::metrics::{Metrics, MetricsReporter};
use omaha_client::policy::{CheckDecision, PolicyEngine, UpdateDecision};
use omaha_client::protocol::request::InstallSource;
use omaha_client::protocol::response::{OmahaStatus, Response};
use omaha_client::request_builder::RequestParams;
use omaha_client::storage::Storage;
use omaha_client::time::{ComplexTime, PartialComplexTime, TimeSource, Timer};
use std::time::{Duration, Instant, SystemTime};

// ---------------------------------------------------------------- clock

#[derive(Clone)]
pub struct SimClock {
    pub w: Shared,
}

impl SimClock {
    fn read(&self, which: &str) -> (i128, i64) {
        let _g = EnvGuard::enter();
        let mut w = lock(&self.w);
        let wall = w.wall_ns();
        let mono = w.mono_off();
        if w.record_clock {
            w.rec(Kind::ClockRead { wall, mono, which: which.to_string() });
        }
        (wall, mono)
    }
}

impl TimeSource for SimClock {
    fn now_in_walltime(&self) -> SystemTime {
        let (wall, _) = self.read("wall");
        conv::systime_from_ns(wall)
    }
    fn now_in_monotonic(&self) -> Instant {
        let (_, mono) = self.read("mono");
        conv::instant_from_offset(mono)
    }
    fn now(&self) -> ComplexTime {
        let (wall, mono) = self.read("both");
        ComplexTime { wall: conv::systime_from_ns(wall), mono: conv::instant_from_offset(mono) }
    }
}

// ---------------------------------------------------------------- timer

pub struct SimTimer {
    pub w: Shared,
}

impl SimTimer {
    fn arm(&mut self, arg: TimerArg, delay_to_deadline: u64) -> BoxFuture<'static, ()> {
        let _g = EnvGuard::enter();
        let mut w = lock(&self.w);
        // lateness: timers may fire late, never early
        let ordinal_peek = *w.ord.get(&format!("L{}/timer", w.life)).unwrap_or(&0);
        let label = format!("L{}/timer#{}", w.life, ordinal_peek);
        let weights = w.profile.lateness;
        let late = if w.is_probe {
            0
        } else {
            match w.draws.weighted(&format!("{label}/late"), &weights) {
                0 => 0,
                1 => (1 + w.draws.draw(&format!("{label}/late.v"), 900)) * MS,
                2 => (1 + w.draws.draw(&format!("{label}/late.v"), 600)) * SEC,
                _ => (1 + w.draws.draw(&format!("{label}/late.v"), 72)) * 3600 * SEC,
            }
        };
        if late > 0 {
            w.stat("time.late_timer");
        }
        let deadline = w.vt.saturating_add(delay_to_deadline).min(VT_MAX);
        let (id, _label) = w.new_op("timer", Some(delay_to_deadline.saturating_add(late)));
        w.rec(Kind::TimerArm { id, arg, deadline_vt: deadline });
        w.last_timer_id = id;
        // a timer asked to wait for a deadline that has already been reached may hand out a future
        // that is ready at its first poll
        let imm = w.profile.timer_immediate_permille;
        if delay_to_deadline == 0 && late == 0 && !w.is_probe && w.draws.chance(&format!("{label}/immediate"), imm) {
            w.stat("time.timer_ready_at_first_poll");
            if let Some(op) = w.ops.get_mut(&id) {
                op.fired = true;
            }
            w.rec(Kind::TimerFire { id });
        }
        drop(w);
        Pend::new(&self.w, id, ()).boxed()
    }
}

impl Timer for SimTimer {
    fn wait_until(&mut self, time: impl Into<PartialComplexTime>) -> BoxFuture<'static, ()> {
        let _g = EnvGuard::enter();
        let t: PartialComplexTime = time.into();
        let rec = conv::pct(&t);
        // fault point: the wall clock is corrected by less than a microsecond (either way) right
        // when a deadline is handed to the timer (only in profiles that step the clock at all)
        {
            let mut w = lock(&self.w);
            if w.profile.clock_jump_permille > 0 && !w.is_probe {
                let life = w.life;
                let n = w.ordinal("timer.adjust");
                if w.draws.chance(&format!("L{life}/timer.adjust#{n}"), 60) {
                    let v = 1 + w.draws.draw(&format!("L{life}/timer.adjust#{n}/v"), 999) as i128;
                    let delta = if w.draws.draw(&format!("L{life}/timer.adjust#{n}/back"), 2) == 1 { -v } else { v };
                    w.wall_skew += delta;
                    w.stat("time.wall_adjust_at_timer_arm");
                    w.rec(Kind::ClockJump { delta });
                }
            }
        }
        // fires when any present bound is reached
        let (now_wall, now_mono) = {
            let w = lock(&self.w);
            (w.wall_ns(), w.mono_off())
        };
        let mut delay: Option<u64> = None;
        if let Some(wall) = rec.wall {
            let d = (wall - now_wall).max(0);
            let d = if d > (1i128 << 60) { 1u64 << 60 } else { d as u64 };
            delay = Some(d);
        }
        if let Some(mono) = rec.mono {
            let d = (mono as i128 - now_mono as i128).max(0);
            let d = if d > (1i128 << 60) { 1u64 << 60 } else { d as u64 };
            delay = Some(match delay {
                Some(x) => x.min(d),
                None => d,
            });
        }
        // a timer built on the library's own comparison: ask it now and when the wait is over
        let cmp = |w: &Shared, phase: &str, t: PartialComplexTime, rec: TimeRec, id: u64| {
            let (now_wall, now_mono) = {
                let w = lock(w);
                (w.wall_ns(), w.mono_off())
            };
            let now = ComplexTime { wall: conv::systime_from_ns(now_wall), mono: conv::instant_from_offset(now_mono) };
            let lib = {
                let _s = SutGuard::enter();
                now.is_after_or_eq_any(t)
            };
            lock(w).rec(Kind::TimerCmp { id, phase: phase.to_string(), now_wall, now_mono, deadline: rec, lib });
        };
        let fut = self.arm(TimerArg::Until(rec.clone()), delay.unwrap_or(0));
        let id = lock(&self.w).last_timer_id;
        {
            // a timer may just as well read the two components through the accessors
            let (aw, am) = {
                let _s = SutGuard::enter();
                (t.checked_to_system_time(), t.checked_to_instant())
            };
            let accessors = TimeRec { wall: aw.map(conv::systime_to_ns), mono: am.map(conv::instant_to_offset) };
            lock(&self.w).rec(Kind::TimerParts { id, destructure: rec.clone(), accessors });
        }
        cmp(&self.w, "arm", t, rec.clone(), id);
        let w2 = self.w.clone();
        async move {
            fut.await;
            let _g = EnvGuard::enter();
            cmp(&w2, "fire", t, rec, id);
        }
        .boxed()
    }

    fn wait_for(&mut self, duration: Duration) -> BoxFuture<'static, ()> {
        let _g = EnvGuard::enter();
        let ns = duration.as_nanos();
        let d = if ns > (1u128 << 60) { 1u64 << 60 } else { ns as u64 };
        self.arm(TimerArg::For(ns), d)
    }
}

// ---------------------------------------------------------------- http

pub struct SimHttp {
    pub w: Shared,
}

fn classify(body: &Option<serde_json::Value>) -> ReqKind {
    let apps = body
        .as_ref()
        .and_then(|b| b.get("request"))
        .and_then(|r| r.get("app"))
        .and_then(|a| a.as_array());
    match apps {
        None => ReqKind::Other,
        Some(apps) => {
            if apps.iter().any(|a| a.get("updatecheck").is_some()) {
                ReqKind::UpdateCheck
            } else if apps.iter().any(|a| a.get("event").is_some()) {
                ReqKind::Event
            } else if apps.iter().any(|a| a.get("ping").is_some()) {
                ReqKind::Ping
            } else {
                ReqKind::Other
            }
        }
    }
}

impl HttpRequest for SimHttp {
    fn request(
        &mut self,
        req: hyper::Request<hyper::Body>,
    ) -> BoxFuture<'_, Result<hyper::Response<Vec<u8>>, http_request::Error>> {
        let _g = EnvGuard::enter();
        let (parts, body) = req.into_parts();
        // The body was built from a Vec: it is available at the first poll.
        let bytes = match futures::executor::block_on(hyper::body::to_bytes(body)) {
            Ok(b) => b.to_vec(),
            Err(_) => Vec::new(),
        };
        let body_json: Option<serde_json::Value> = serde_json::from_slice(&bytes).ok();
        let kind = classify(&body_json);
        let headers: Vec<(String, String)> = parts
            .headers
            .iter()
            .map(|(k, v)| (k.as_str().to_string(), String::from_utf8_lossy(v.as_bytes()).to_string()))
            .collect();
        let uri = parts.uri.to_string();
        let mut w = lock(&self.w);
        let (id, _label) = w.new_op("http", None);
        w.sent.insert(
            id,
            SentReq {
                uri: uri.clone(),
                headers: headers.clone(),
                body: bytes.clone(),
                body_json: body_json.clone(),
                kind: kind.clone(),
            },
        );
        w.rec(Kind::HttpSend {
            id,
            uri,
            method: parts.method.to_string(),
            headers,
            body_json,
            body_sha: sha_hex(&bytes),
            body_len: bytes.len(),
            kind,
        });
        drop(w);
        let shared = self.w.clone();
        Pend::new(&self.w, id, ())
            .map(move |()| {
                let _g = EnvGuard::enter();
                let mut w = lock(&shared);
                w.http_results
                    .remove(&id)
                    .unwrap_or_else(|| Err(http_request::mock_errors::make_transport_error()))
            })
            .boxed()
    }
}

// ---------------------------------------------------------------- disk

#[derive(Debug, thiserror::Error)]
#[error("simulated disk error on {0}")]
pub struct SimDiskError(pub String);

pub struct SimDisk {
    pub w: Shared,
}

enum Gate {
    Now,
    Later(u64),
    Never,
}

impl SimDisk {
    /// every storage operation is an interaction (crash point) and may be slow
    fn gate(w: &mut World, class: &'static str) -> (Gate, String) {
        if w.disk_instant {
            let (ok, label) = w.instant_point(class);
            if ok {
                (Gate::Now, label)
            } else {
                (Gate::Never, label)
            }
        } else {
            let slow = w.profile.disk.slow;
            let ordinal_peek = *w.ord.get(&format!("L{}/{}", w.life, class)).unwrap_or(&0);
            let key = format!("L{}/{}#{}/slow", w.life, class, ordinal_peek);
            if w.draws.chance(&key, slow) {
                w.stat("disk.slow_op");
                let (id, label) = w.new_op(class, None);
                if w.ops.get(&id).map(|o| o.never).unwrap_or(false) {
                    // crash landed here: pending forever, no effect
                    (Gate::Never, label)
                } else {
                    (Gate::Later(id), label)
                }
            } else {
                let (ok, label) = w.instant_point(class);
                if ok {
                    (Gate::Now, label)
                } else {
                    (Gate::Never, label)
                }
            }
        }
    }

    fn finish<'a, T: Send + Unpin + 'a>(&self, gate: Gate, val: T) -> BoxFuture<'a, T> {
        match gate {
            Gate::Now => future::ready(val).boxed(),
            Gate::Later(id) => Pend::new(&self.w, id, val).boxed(),
            Gate::Never => Pend::<T>::never(&self.w).boxed(),
        }
    }

    fn get(&self, key: &str) -> (Gate, Option<DiskVal>) {
        let _g = EnvGuard::enter();
        let mut w = lock(&self.w);
        let (gate, _label) = Self::gate(&mut w, "disk.get");
        let v = w.disk.get(key);
        if !matches!(gate, Gate::Never) {
            w.rec(Kind::Disk { op: DiskOp::Get, key: key.to_string(), ok: true, got: v.clone() });
        }
        (gate, v)
    }

    fn set(&self, key: &str, val: DiskVal) -> BoxFuture<'_, Result<(), SimDiskError>> {
        let _g = EnvGuard::enter();
        let mut w = lock(&self.w);
        let (gate, _label) = Self::gate(&mut w, "disk.set");
        if matches!(gate, Gate::Never) {
            drop(w);
            return self.finish(gate, Ok(()));
        }
        let n = w.ordinal(&format!("disk.set:{key}"));
        let rate = if w.profile.disk.fail_keys.is_empty() || w.profile.disk.fail_keys.iter().any(|k| k == key) { w.profile.disk.fail_set } else { 0 };
        let life = w.life;
        let fail = w.draws.chance(&format!("L{life}/disk/set:{key}#{n}/fail"), rate);
        let res = if fail {
            w.stat("disk.set_error");
            Err(SimDiskError(format!("set {key}")))
        } else {
            w.disk.pending.insert(key.to_string(), Some(val.clone()));
            Ok(())
        };
        w.rec(Kind::Disk { op: DiskOp::Set(val), key: key.to_string(), ok: !fail, got: None });
        drop(w);
        self.finish(gate, res)
    }
}

impl Storage for SimDisk {
    type Error = SimDiskError;

    fn get_string<'a>(&'a self, key: &'a str) -> BoxFuture<'a, Option<String>> {
        let (gate, v) = self.get(key);
        let out = match v {
            Some(DiskVal::S(s)) => Some(s),
            _ => None,
        };
        self.finish(gate, out)
    }
    fn get_int<'a>(&'a self, key: &'a str) -> BoxFuture<'a, Option<i64>> {
        let (gate, v) = self.get(key);
        let out = match v {
            Some(DiskVal::I(i)) => Some(i),
            _ => None,
        };
        self.finish(gate, out)
    }
    fn get_bool<'a>(&'a self, key: &'a str) -> BoxFuture<'a, Option<bool>> {
        let (gate, v) = self.get(key);
        let out = match v {
            Some(DiskVal::B(b)) => Some(b),
            _ => None,
        };
        self.finish(gate, out)
    }
    fn set_string<'a>(&'a mut self, key: &'a str, value: &'a str) -> BoxFuture<'a, Result<(), Self::Error>> {
        self.set(key, DiskVal::S(value.to_string()))
    }
    fn set_int<'a>(&'a mut self, key: &'a str, value: i64) -> BoxFuture<'a, Result<(), Self::Error>> {
        self.set(key, DiskVal::I(value))
    }
    fn set_bool<'a>(&'a mut self, key: &'a str, value: bool) -> BoxFuture<'a, Result<(), Self::Error>> {
        self.set(key, DiskVal::B(value))
    }
    fn remove<'a>(&'a mut self, key: &'a str) -> BoxFuture<'a, Result<(), Self::Error>> {
        let _g = EnvGuard::enter();
        let mut w = lock(&self.w);
        let (gate, _label) = Self::gate(&mut w, "disk.remove");
        if matches!(gate, Gate::Never) {
            drop(w);
            return self.finish(gate, Ok(()));
        }
        let n = w.ordinal(&format!("disk.remove:{key}"));
        let rate = if w.profile.disk.fail_keys.is_empty() || w.profile.disk.fail_keys.iter().any(|k| k == key) { w.profile.disk.fail_remove } else { 0 };
        let life = w.life;
        let fail = w.draws.chance(&format!("L{life}/disk/remove:{key}#{n}/fail"), rate);
        let res = if fail {
            w.stat("disk.remove_error");
            Err(SimDiskError(format!("remove {key}")))
        } else {
            w.disk.pending.insert(key.to_string(), None);
            Ok(())
        };
        w.rec(Kind::Disk { op: DiskOp::Remove, key: key.to_string(), ok: !fail, got: None });
        drop(w);
        self.finish(gate, res)
    }
    fn commit(&mut self) -> BoxFuture<'_, Result<(), Self::Error>> {
        let _g = EnvGuard::enter();
        let mut w = lock(&self.w);
        let (gate, _label) = Self::gate(&mut w, "disk.commit");
        if matches!(gate, Gate::Never) {
            drop(w);
            return self.finish(gate, Ok(()));
        }
        let n = w.ordinal("disk.commit.n");
        let rate = w.profile.disk.fail_commit;
        let life = w.life;
        let fail = w.draws.chance(&format!("L{life}/disk/commit#{n}/fail"), rate);
        let res = if fail {
            w.stat("disk.commit_error");
            if w.commit_fail_drops {
                w.disk.pending.clear();
            }
            Err(SimDiskError("commit".to_string()))
        } else {
            let pending = std::mem::take(&mut w.disk.pending);
            for (k, v) in pending {
                match v {
                    Some(v) => {
                        w.disk.committed.insert(k, v);
                    }
                    None => {
                        w.disk.committed.remove(&k);
                    }
                }
            }
            Ok(())
        };
        w.rec(Kind::Disk { op: DiskOp::Commit, key: String::new(), ok: !fail, got: None });
        if !fail {
            let map = w.disk.committed.clone();
            w.rec(Kind::DiskCommitted { map });
        }
        drop(w);
        self.finish(gate, res)
    }
}

// ---------------------------------------------------------------- metrics

pub struct SimMetrics {
    pub w: Shared,
}

impl MetricsReporter for SimMetrics {
    fn report_metrics(&mut self, metrics: Metrics) -> Result<(), anyhow::Error> {
        let _g = EnvGuard::enter();
        let mut w = lock(&self.w);
        let n = w.ordinal("metric");
        let rate = w.profile.metrics_err_permille;
        let life = w.life;
        let fail = w.draws.chance(&format!("L{life}/metric#{n}/err"), rate);
        w.rec(Kind::Metric(conv::metric(&metrics)));
        if fail {
            w.stat("embedder.metrics_error");
            Err(anyhow::anyhow!("simulated metrics sink error"))
        } else {
            Ok(())
        }
    }
}

// ---------------------------------------------------------------- app set

pub struct SimAppSet {
    pub apps: Vec<App>,
    pub system_idx: usize,
    /// where to note that the library takes the apps for writing (None in probe machines)
    pub w: Option<Shared>,
}

impl AppSet for SimAppSet {
    fn get_apps(&self) -> Vec<App> {
        if let Some(w) = &self.w {
            let _g = EnvGuard::enter();
            lock(w).rec(Kind::AppSetRead);
        }
        self.apps.clone()
    }
    fn iter_mut_apps(&mut self) -> Box<dyn Iterator<Item = &mut App> + '_> {
        if let Some(w) = &self.w {
            let _g = EnvGuard::enter();
            lock(w).rec(Kind::AppSetWrite);
        }
        Box::new(self.apps.iter_mut())
    }
    fn get_system_app_id(&self) -> &str {
        &self.apps[self.system_idx].id
    }
}

// ---------------------------------------------------------------- policy

pub struct SimPolicy {
    pub w: Shared,
    pub clock: SimClock,
}

#[derive(Debug, Clone)]
pub struct SimPlan {
    pub id: String,
    /// app ids offered an update, in response order
    pub offered: Vec<String>,
}

impl Plan for SimPlan {
    fn id(&self) -> String {
        self.id.clone()
    }
}

fn draw_params(w: &mut World, key: &str, default_src: InstallSource) -> RequestParams {
    let vary = w.profile.policy.params_vary;
    let mut p = RequestParams {
        source: default_src,
        use_configured_proxies: true,
        disable_updates: false,
        offer_update_if_same_version: false,
    };
    if w.draws.chance(&format!("{key}/params.src"), vary) {
        p.source = match p.source {
            InstallSource::OnDemand => InstallSource::ScheduledTask,
            InstallSource::ScheduledTask => InstallSource::OnDemand,
        };
    }
    if w.profile.policy.params_no_disable {
        p.disable_updates = w.server.mock_disable_updates;
    } else if w.draws.chance(&format!("{key}/params.dis"), vary / 2) {
        p.disable_updates = true;
    }
    if w.draws.chance(&format!("{key}/params.same"), vary / 2) {
        p.offer_update_if_same_version = true;
    }
    if w.draws.chance(&format!("{key}/params.proxy"), vary / 2) {
        p.use_configured_proxies = false;
    }
    p
}

impl PolicyEngine for SimPolicy {
    type TimeSource = SimClock;
    type InstallResult = u64;
    type InstallPlan = SimPlan;

    fn time_source(&self) -> &SimClock {
        &self.clock
    }

    fn compute_next_update_time<'a>(
        &'a mut self,
        apps: &'a [App],
        scheduling: &'a UpdateCheckSchedule,
        protocol_state: &'a ProtocolState,
    ) -> BoxFuture<'a, CheckTiming> {
        let _g = EnvGuard::enter();
        let mut w = lock(&self.w);
        if w.is_probe {
            w.probe_capture = Some((conv::apps(apps), conv::sched(scheduling), conv::proto(protocol_state)));
            drop(w);
            return Pend::<CheckTiming>::never(&self.w).boxed();
        }
        let (id, label) = w.new_op("policy.next", None);
        // timing: kind x delay x minimum wait
        let tk = w.profile.policy.timing_kind;
        let kind = w.draws.weighted(&format!("{label}/kind"), &tk);
        let delays = w.profile.next_delays_s.clone();
        let di = w.draws.draw(&format!("{label}/delay"), delays.len() as u64) as usize;
        let delay = Duration::from_secs(delays[di]);
        let di2 = w.draws.draw(&format!("{label}/delay2"), delays.len() as u64) as usize;
        let delay2 = Duration::from_secs(delays[di2]);
        let wall = conv::systime_from_ns(w.wall_ns()) + delay;
        let mono_here = conv::instant_from_offset(w.mono_off());
        let time = match kind {
            0 => PartialComplexTime::Wall(wall),
            1 => PartialComplexTime::Monotonic(mono_here + delay),
            _ => PartialComplexTime::Complex(ComplexTime { wall, mono: mono_here + delay2 }),
        };
        let mw = w.profile.policy.min_wait_permille;
        let minimum_wait = if w.draws.chance(&format!("{label}/minwait"), mw) {
            let huge = w.profile.policy.huge_min_wait_permille;
            if w.draws.chance(&format!("{label}/minwait.huge"), huge) {
                w.stat("policy.huge_minimum_wait");
                Some(match w.draws.draw(&format!("{label}/minwait.huge.v"), 4) {
                    0 => Duration::MAX,
                    1 => Duration::from_secs(i64::MAX as u64),
                    2 => Duration::from_secs(u64::MAX),
                    _ => Duration::from_secs(1 << 40),
                })
            } else {
                let opts = [0u64, 1, 30, 600, 7200];
                let i = w.draws.draw(&format!("{label}/minwait.v"), opts.len() as u64) as usize;
                Some(Duration::from_secs(opts[i]))
            }
        } else {
            None
        };
        let timing = CheckTiming { time, minimum_wait };
        w.rec(Kind::Policy(PolicyRec::ComputeNext {
            apps: conv::apps(apps),
            sched: conv::sched(scheduling),
            proto: conv::proto(protocol_state),
            answer: conv::timing(&timing),
        }));
        drop(w);
        Pend::new(&self.w, id, timing).boxed()
    }

    fn update_check_allowed<'a>(
        &'a mut self,
        apps: &'a [App],
        scheduling: &'a UpdateCheckSchedule,
        protocol_state: &'a ProtocolState,
        check_options: &'a CheckOptions,
    ) -> BoxFuture<'a, CheckDecision> {
        let _g = EnvGuard::enter();
        let mut w = lock(&self.w);
        let (id, label) = w.new_op("policy.allowed", None);
        let weights = w.profile.policy.check;
        let which = w.draws.weighted(&format!("{label}/decision"), &weights);
        let decision = match which {
            0 => CheckDecision::Ok(draw_params(&mut w, &label, check_options.source)),
            1 => CheckDecision::OkUpdateDeferred(draw_params(&mut w, &label, check_options.source)),
            2 => CheckDecision::TooSoon,
            3 => CheckDecision::ThrottledByPolicy,
            _ => CheckDecision::DeniedByPolicy,
        };
        w.rec(Kind::Policy(PolicyRec::CheckAllowed {
            apps: conv::apps(apps),
            sched: conv::sched(scheduling),
            proto: conv::proto(protocol_state),
            source: conv::src(check_options.source),
            answer: conv::check_decision(&decision),
        }));
        drop(w);
        Pend::new(&self.w, id, decision).boxed()
    }

    fn update_can_start<'a>(&'a mut self, plan: &'a SimPlan) -> BoxFuture<'a, UpdateDecision> {
        let _g = EnvGuard::enter();
        let mut w = lock(&self.w);
        let (id, label) = w.new_op("policy.canstart", None);
        let weights = w.profile.policy.can_start;
        let d = match w.draws.weighted(&format!("{label}/decision"), &weights) {
            0 => UpdateDecision::Ok,
            1 => UpdateDecision::DeferredByPolicy,
            _ => UpdateDecision::DeniedByPolicy,
        };
        w.rec(Kind::Policy(PolicyRec::CanStart { plan: plan.id.clone(), answer: conv::update_decision(&d) }));
        drop(w);
        Pend::new(&self.w, id, d).boxed()
    }

    fn reboot_allowed<'a>(
        &'a mut self,
        check_options: &'a CheckOptions,
        install_result: &'a u64,
    ) -> BoxFuture<'a, bool> {
        let _g = EnvGuard::enter();
        let mut w = lock(&self.w);
        let (id, label) = w.new_op("policy.rebootallowed", None);
        let rate = w.profile.policy.reboot_allowed_permille;
        let a = w.draws.chance(&format!("{label}/answer"), rate);
        w.rec(Kind::Policy(PolicyRec::RebootAllowed {
            source: conv::src(check_options.source),
            install_result: *install_result,
            answer: a,
        }));
        drop(w);
        Pend::new(&self.w, id, a).boxed()
    }

    fn reboot_needed<'a>(&'a mut self, plan: &'a SimPlan) -> BoxFuture<'a, bool> {
        let _g = EnvGuard::enter();
        let mut w = lock(&self.w);
        let (id, label) = w.new_op("policy.rebootneeded", None);
        let rate = w.profile.policy.reboot_needed_permille;
        let a = w.draws.chance(&format!("{label}/answer"), rate);
        w.rec(Kind::Policy(PolicyRec::RebootNeeded { plan: plan.id.clone(), answer: a }));
        drop(w);
        Pend::new(&self.w, id, a).boxed()
    }
}

// ---------------------------------------------------------------- installer

#[derive(Debug, thiserror::Error)]
#[error("simulated install error: {0}")]
pub struct SimInstallError(pub String);

pub struct SimInstaller {
    pub w: Shared,
}

impl Installer for SimInstaller {
    type InstallPlan = SimPlan;
    type InstallResult = u64;
    type Error = SimInstallError;

    fn perform_install<'a>(
        &'a mut self,
        install_plan: &'a SimPlan,
        observer: Option<&'a dyn ProgressObserver>,
    ) -> LocalBoxFuture<'a, (u64, Vec<AppInstallResult<SimInstallError>>)> {
        let shared = self.w.clone();
        async move {
            let (n_progress, label, first) = {
                let _g = EnvGuard::enter();
                let mut w = lock(&shared);
                let (id, label) = w.new_op("install", None);
                w.rec(Kind::Installer(InstallerRec::PerformInstall { plan: install_plan.id.clone() }));
                let maxp = w.profile.installer.max_progress as u64;
                let n = w.draws.draw(&format!("{label}/nprogress"), maxp + 1);
                (n, label, id)
            };
            Pend::new(&shared, first, ()).await;
            for i in 0..n_progress {
                // progress fractions as an installer reports them: non-decreasing, may repeat
                let value = {
                    let _g = EnvGuard::enter();
                    let mut w = lock(&shared);
                    let rep = w.draws.draw(&format!("{label}/progress#{i}/repeat"), 4) == 3;
                    let k = if rep && i > 0 { i } else { i + 1 };
                    (k as f32) / (n_progress as f32)
                };
                {
                    let _g = EnvGuard::enter();
                    let mut w = lock(&shared);
                    w.rec(Kind::Installer(InstallerRec::ProgressSent { value: value.to_bits() }));
                }
                if let Some(obs) = observer {
                    let cancel = {
                        let _g = EnvGuard::enter();
                        let mut w = lock(&shared);
                        let rate = w.profile.installer.cancel_progress_permille;
                        let c = w.draws.chance(&format!("{label}/progress#{i}/cancel"), rate);
                        if c {
                            w.stat("embedder.progress_report_cancelled");
                        }
                        c
                    };
                    let concurrent = !cancel && {
                        let _g = EnvGuard::enter();
                        let mut w = lock(&shared);
                        let rate = w.profile.installer.concurrent_progress_permille;
                        let c = w.draws.chance(&format!("{label}/progress#{i}/concurrent"), rate);
                        if c {
                            w.stat("embedder.progress_reports_in_flight_together");
                            // a second worker's report, started before the first one returned
                            w.rec(Kind::Installer(InstallerRec::ProgressSent { value: (value * 0.5).to_bits() }));
                        }
                        c
                    };
                    if concurrent {
                        let a = obs.receive_progress(Some("sim"), value, Some(100), Some(i + 1));
                        let b = obs.receive_progress(Some("sim-worker-2"), value * 0.5, Some(100), Some(i + 1));
                        futures::future::join(a, b).await;
                        let _g = EnvGuard::enter();
                        let mut w = lock(&shared);
                        w.rec(Kind::Installer(InstallerRec::ProgressReturned { value: (value * 0.5).to_bits() }));
                        drop(w);
                    }
                    let mut fut = if concurrent { futures::future::ready(()).boxed() } else { obs.receive_progress(Some("sim"), value, Some(100), Some(i + 1)) };
                    if cancel {
                        // the report is started (the value is handed over) and then abandoned,
                        // as an installer does that wraps its reports in a timeout
                        let _ = futures::poll!(&mut fut);
                        drop(fut);
                    } else {
                        fut.await;
                    }
                }
                let step = {
                    let _g = EnvGuard::enter();
                    let mut w = lock(&shared);
                    w.rec(Kind::Installer(InstallerRec::ProgressReturned { value: value.to_bits() }));
                    // between two reports the installer may have nothing to wait for
                    let rate = w.profile.installer.step_nowait_permille;
                    if w.draws.chance(&format!("{label}/progress#{i}/nowait"), rate) {
                        w.stat("embedder.installer_step_without_waiting");
                        None
                    } else {
                        let (id, _l) = w.new_op("install.step", None);
                        Some(id)
                    }
                };
                if let Some(step) = step {
                    Pend::new(&shared, step, ()).await;
                }
            }
            let _g = EnvGuard::enter();
            let mut w = lock(&shared);
            let weights = w.profile.installer.app_result;
            let mut results = vec![];
            let mut recs = vec![];
            for (i, app) in install_plan.offered.iter().enumerate() {
                match w.draws.weighted(&format!("{label}/app#{i}/result"), &weights) {
                    0 => {
                        results.push(AppInstallResult::Installed);
                        recs.push(InstallRes::Installed);
                    }
                    1 => {
                        results.push(AppInstallResult::Deferred);
                        recs.push(InstallRes::Deferred);
                    }
                    _ => {
                        results.push(AppInstallResult::Failed(SimInstallError(format!("{label}/{app}"))));
                        recs.push(InstallRes::Failed);
                    }
                }
            }
            let ir = w.ordinal("install_result");
            w.rec(Kind::Installer(InstallerRec::InstallDone {
                plan: install_plan.id.clone(),
                install_result: ir,
                results: recs,
            }));
            (ir, results)
        }
        .boxed_local()
    }

    fn perform_reboot(&mut self) -> LocalBoxFuture<'_, Result<(), anyhow::Error>> {
        let _g = EnvGuard::enter();
        let mut w = lock(&self.w);
        let (id, label) = w.new_op("reboot", None);
        let weights = w.profile.installer.reboot;
        let which = w.draws.weighted(&format!("{label}/behaviour"), &weights);
        let behaviour = ["reboots", "returns_ok", "returns_err"][which];
        w.rec(Kind::Installer(InstallerRec::Reboot { behaviour: behaviour.to_string() }));
        if which == 0 {
            w.reboot_requested = Some(label);
            // the machine goes down: this call never returns
            if let Some(op) = w.ops.get_mut(&id) {
                op.never = true;
            }
            drop(w);
            return Pend::new(&self.w, id, Ok(())).boxed_local();
        }
        drop(w);
        let res = if which == 1 { Ok(()) } else { Err(anyhow::anyhow!("simulated reboot failure")) };
        Pend::new(&self.w, id, res).boxed_local()
    }

    fn try_create_install_plan<'a>(
        &'a self,
        request_params: &'a RequestParams,
        request_metadata: Option<&'a RequestMetadata>,
        response: &'a Response,
        response_bytes: Vec<u8>,
        ecdsa_signature: Option<Vec<u8>>,
    ) -> LocalBoxFuture<'a, Result<SimPlan, SimInstallError>> {
        let _g = EnvGuard::enter();
        let mut w = lock(&self.w);
        let (id, label) = w.new_op("plan", None);
        let offered: Vec<String> = response
            .apps
            .iter()
            .filter(|a| matches!(&a.update_check, Some(u) if u.status == OmahaStatus::Ok))
            .map(|a| a.id.clone())
            .collect();
        // the embedder role: compute the download URLs of each offered app
        let full_urls: Vec<Vec<String>> = response
            .apps
            .iter()
            .filter(|a| matches!(&a.update_check, Some(u) if u.status == OmahaStatus::Ok))
            .map(|a| a.update_check.as_ref().unwrap().get_all_full_urls().collect())
            .collect();
        let rate = w.profile.installer.plan_fail_permille;
        let fail = w.draws.chance(&format!("{label}/fail"), rate);
        let fresh_rate = w.profile.installer.plan_id_fresh_permille;
        let fresh = w.draws.chance(&format!("{label}/fresh_id"), fresh_rate);
        let response_value = conv::response_value(response);
        let plan_id = if fresh {
            format!("plan-{}-{}", w.life, label)
        } else {
            // stable for the same offer: derived from offered apps and their manifest versions
            let mut s = String::from("plan");
            for a in response.apps.iter() {
                if matches!(&a.update_check, Some(u) if u.status == OmahaStatus::Ok) {
                    s.push_str(&format!(":{}={}", a.id, a.get_manifest_version().unwrap_or_default()));
                }
            }
            s
        };
        let result = if fail { Err(()) } else { Ok(plan_id.clone()) };
        w.rec(Kind::Installer(InstallerRec::CreatePlan {
            params: conv::params(request_params),
            meta: request_metadata.map(|m| MetaRec {
                body_sha: sha_hex(&m.request_body),
                body_len: m.request_body.len(),
                key_id: m.public_key_id,
                nonce_hex: m.nonce.to_string(),
            }),
            offered: offered.clone(),
            response: response_value,
            body_sha: sha_hex(&response_bytes),
            signature: ecdsa_signature.map(hex::encode),
            result: result.clone(),
            full_urls,
        }));
        if fail {
            w.stat("embedder.plan_failure");
        }
        drop(w);
        let out = match result {
            Ok(id) => Ok(SimPlan { id, offered }),
            Err(()) => Err(SimInstallError(format!("{label}: cannot create plan"))),
        };
        Pend::new(&self.w, id, out).boxed_local()
    }
}
