//! The simulated world: virtual time, event queue, pending environment operations, disk,
//! history. Shared by all simulated trait objects of a run through `Shared`.

use crate::hist::*;
use crate::profile::Profile;
use crate::rng::Draws;
use std::cell::Cell;
use std::collections::{BTreeMap, BinaryHeap};
use std::future::Future;
use std::pin::Pin;
use std::sync::{Arc, Mutex, MutexGuard};
use std::task::{Context, Poll, Waker};

pub type Shared = Arc<Mutex<World>>;

pub fn lock(w: &Shared) -> MutexGuard<'_, World> {
    w.lock().unwrap_or_else(|e| e.into_inner())
}

thread_local! {
    /// true while the executor is polling futures of the library / calling its functions and
    /// no simulated trait method is running. Used to attribute panics.
    pub static IN_SUT: Cell<bool> = const { Cell::new(false) };
    /// the same mark, visible to the thread that waits for this run (hang attribution)
    pub static SUT_FLAG: std::cell::RefCell<Option<std::sync::Arc<std::sync::atomic::AtomicBool>>> = const { std::cell::RefCell::new(None) };
    /// set on threads that execute simulated runs (their panics are caught and attributed)
    pub static IS_RUN_THREAD: Cell<bool> = const { Cell::new(false) };
}

/// Guard for the body of a simulated trait method: clears IN_SUT, restores on drop.
pub struct EnvGuard(bool);
impl EnvGuard {
    pub fn enter() -> Self {
        let prev = IN_SUT.with(|c| c.replace(false));
        set_shared_mark(false);
        EnvGuard(prev)
    }
}
impl Drop for EnvGuard {
    fn drop(&mut self) {
        IN_SUT.with(|c| c.set(self.0));
        set_shared_mark(self.0);
    }
}

fn set_shared_mark(v: bool) {
    SUT_FLAG.with(|f| {
        if let Some(a) = f.borrow().as_ref() {
            a.store(v, std::sync::atomic::Ordering::Relaxed);
        }
    });
}

/// Guard used by the executor around polls of library futures.
pub struct SutGuard(bool);
impl SutGuard {
    pub fn enter() -> Self {
        let prev = IN_SUT.with(|c| c.replace(true));
        set_shared_mark(true);
        SutGuard(prev)
    }
}
impl Drop for SutGuard {
    fn drop(&mut self) {
        IN_SUT.with(|c| c.set(self.0));
        set_shared_mark(self.0);
    }
}

#[derive(Clone, Debug, PartialEq, Eq, PartialOrd, Ord)]
pub enum What {
    Complete(u64),
    ClientInvoke(u32, u32),
    ClientPoll(u32),
    ConsumerPoll,
    ClockJump(u32),
    DropHandles,
    DropStream,
    AdminReconfig(u32),
    NeighbourStart(u32),
    NeighbourPoll(u32),
}

#[derive(Clone, Debug, PartialEq, Eq, PartialOrd, Ord)]
pub struct QEv {
    pub t: u64,
    pub prio: u8,
    pub seq: u64,
    pub what: What,
}

pub struct OpSt {
    pub label: String,
    pub class: &'static str,
    pub fired: bool,
    pub never: bool,
    pub waker: Option<Waker>,
}

#[derive(Clone, Debug)]
pub struct SentReq {
    pub uri: String,
    pub headers: Vec<(String, String)>,
    pub body: Vec<u8>,
    pub body_json: Option<serde_json::Value>,
    pub kind: ReqKind,
}

#[derive(Clone, Debug)]
pub struct Trigger {
    pub class: &'static str,
    pub ordinal: u64,
    pub client: u32,
    pub req: u32,
    pub delay: u64,
}

#[derive(Default)]
pub struct DiskState {
    pub committed: BTreeMap<String, DiskVal>,
    pub pending: BTreeMap<String, Option<DiskVal>>,
}

impl DiskState {
    pub fn get(&self, key: &str) -> Option<DiskVal> {
        match self.pending.get(key) {
            Some(v) => v.clone(),
            None => self.committed.get(key).cloned(),
        }
    }
}

pub struct World {
    pub draws: Draws,
    pub profile: Profile,
    pub vt: u64,
    pub boot_vt: u64,
    pub wall_base: i128,
    pub wall_skew: i128,
    pub hist: History,
    pub seq: u64,
    pub life: u32,
    pub boot: u32,
    pub queue: BinaryHeap<std::cmp::Reverse<QEv>>,
    pub qseq: u64,
    pub ops: BTreeMap<u64, OpSt>,
    pub next_op: u64,
    pub ord: BTreeMap<String, u64>,
    pub disk: DiskState,
    pub disk_instant: bool,
    pub commit_fail_drops: bool,
    pub sent: BTreeMap<u64, SentReq>,
    pub http_results:
        BTreeMap<u64, Result<http::Response<Vec<u8>>, omaha_client::http_request::Error>>,
    pub interactions: u64,
    pub crash_at: Option<u64>,
    pub crash_hit: Option<String>,
    pub reboot_requested: Option<String>,
    pub stats: BTreeMap<String, u64>,
    pub triggers: Vec<Trigger>,
    pub tearing_down: bool,
    pub quiet: bool,
    pub server: crate::refserver::ServerState,
    pub select_ord: u64,
    pub entropy_seed: u64,
    pub entropy_ord: u64,
    pub record_clock: bool,
    pub last_timer_id: u64,
    /// set by the probe policy at its first compute_next_update_time call
    pub probe_capture: Option<(Vec<AppRec>, SchedRec, ProtoRec)>,
    pub is_probe: bool,
    /// wall-clock jumps: (interaction number, delta ns)
    pub jumps: Vec<(u64, i128)>,
    pub jump_ticks: u64,
    /// C17: (exchange id, client parser accepts, verifier accepts for this exchange, for another, config at handling)
    pub mock_answers: Vec<(u64, bool, Option<bool>, Option<bool>, BTreeMap<String, String>)>,
    pub mock_failures: Vec<String>,
}

/// virtual time saturates here (~146 years): far-future timers must not overflow the clock
pub const VT_MAX: u64 = 1 << 62;
pub const MS: u64 = 1_000_000;
pub const SEC: u64 = 1_000_000_000;

impl World {
    pub fn new(profile: Profile, draws: Draws) -> Self {
        let entropy_seed = crate::rng::mix(draws.seed, "entropy-seed");
        World {
            draws,
            profile,
            vt: 0,
            boot_vt: 0,
            wall_base: 1_700_000_000i128 * SEC as i128,
            wall_skew: 0,
            hist: Vec::new(),
            seq: 0,
            life: 0,
            boot: 0,
            queue: BinaryHeap::new(),
            qseq: 0,
            ops: BTreeMap::new(),
            next_op: 0,
            ord: BTreeMap::new(),
            disk: DiskState::default(),
            disk_instant: true,
            commit_fail_drops: false,
            sent: BTreeMap::new(),
            http_results: BTreeMap::new(),
            interactions: 0,
            crash_at: None,
            crash_hit: None,
            reboot_requested: None,
            stats: BTreeMap::new(),
            triggers: Vec::new(),
            tearing_down: false,
            quiet: false,
            server: crate::refserver::ServerState::default(),
            select_ord: 0,
            entropy_seed,
            entropy_ord: 0,
            record_clock: true,
            last_timer_id: 0,
            probe_capture: None,
            is_probe: false,
            jumps: Vec::new(),
            jump_ticks: 0,
            mock_answers: Vec::new(),
            mock_failures: Vec::new(),
        }
    }

    pub fn wall_ns(&self) -> i128 {
        self.wall_base + self.vt as i128 + self.wall_skew
    }

    /// monotonic offset (ns from the simulator base) of the current boot
    pub fn mono_off(&self) -> i64 {
        ((self.vt - self.boot_vt).min(VT_MAX) as i64).saturating_add(5 * SEC as i64)
    }

    pub fn rec(&mut self, kind: Kind) {
        if self.quiet {
            return;
        }
        let r = Rec { seq: self.seq, life: self.life, vt: self.vt, wall: self.wall_ns(), kind };
        self.seq += 1;
        self.hist.push(r);
    }

    pub fn stat(&mut self, k: &str) {
        *self.stats.entry(k.to_string()).or_insert(0) += 1;
    }

    pub fn ordinal(&mut self, class: &str) -> u64 {
        let key = format!("L{}/{}", self.life, class);
        let e = self.ord.entry(key).or_insert(0);
        let v = *e;
        *e += 1;
        v
    }

    pub fn push(&mut self, t: u64, prio: u8, what: What) {
        let seq = self.qseq;
        self.qseq += 1;
        self.queue.push(std::cmp::Reverse(QEv { t, prio, seq, what }));
    }

    fn latency(&mut self, label: &str) -> u64 {
        let weights = self.profile.latency;
        let class = self.draws.weighted(&format!("{label}/lat"), &weights);
        match class {
            0 => 0,
            1 => (1 + self.draws.draw(&format!("{label}/lat.v"), 50)) * MS,
            _ => (1 + self.draws.draw(&format!("{label}/lat.v"), 120)) * SEC,
        }
    }

    /// Register an interaction (a crash point). Returns Some(label-of-crash) if the crash lands here.
    pub fn interaction(&mut self, label: &str) -> bool {
        self.interactions += 1;
        // wall-clock jumps are keyed to non-storage interactions, so that a differential twin
        // (storage failures on/off, which changes how many storage operations happen) sees the
        // jump at the same point of the flow
        if !label.contains("/disk.") {
            self.jump_ticks += 1;
        }
        if !self.jumps.is_empty() && !label.contains("/disk.") {
            let n = self.jump_ticks;
            let due: Vec<i128> = self.jumps.iter().filter(|(at, _)| *at == n).map(|(_, d)| *d).collect();
            if !due.is_empty() {
                self.jumps.retain(|(at, _)| *at != n);
                for delta in due {
                    self.wall_skew += delta;
                    self.stat("time.wall_jump");
                    self.rec(Kind::ClockJump { delta });
                }
            }
        }
        if self.crash_hit.is_none() && self.crash_at == Some(self.interactions) {
            self.crash_hit = Some(label.to_string());
            return true;
        }
        self.crash_hit.is_some()
    }

    /// Create a pending operation of `class`; it completes when the scheduler fires it.
    /// `fixed_delay`: Some(d) = complete exactly d ns from now (timers), None = drawn latency.
    pub fn new_op(&mut self, class: &'static str, fixed_delay: Option<u64>) -> (u64, String) {
        let ordinal = self.ordinal(class);
        let label = format!("L{}/{}#{}", self.life, class, ordinal);
        let id = self.next_op;
        self.next_op += 1;
        let crash = self.interaction(&label);
        let never = crash;
        self.ops.insert(id, OpSt { label: label.clone(), class, fired: false, never, waker: None });
        if !never {
            let d = match fixed_delay {
                Some(d) => d,
                None => {
                    if self.is_probe {
                        0
                    } else {
                        self.latency(&label)
                    }
                }
            };
            let t = self.vt.saturating_add(d).min(VT_MAX);
            self.push(t, 0, What::Complete(id));
        }
        if class == "http" {
            let mut admin = vec![];
            self.triggers.retain(|tr| {
                if tr.class == "__admin" && tr.ordinal == ordinal {
                    admin.push(tr.client);
                    false
                } else {
                    true
                }
            });
            for k in admin {
                // the reconfiguration reaches the server while this exchange is in flight:
                // before or after it, as the latencies decide
                let d = self.draws.draw(&format!("admin#{k}/delay"), 3);
                let t = self.vt.saturating_add([0, 20 * MS, 30 * SEC][d as usize]).min(VT_MAX);
                self.push(t, 0, What::AdminReconfig(k));
            }
        }
        // release control requests that wait for this kind of operation
        let mut fire = vec![];
        self.triggers.retain(|tr| {
            if tr.class == class && tr.ordinal == ordinal {
                fire.push(tr.clone());
                false
            } else {
                true
            }
        });
        for tr in fire {
            let t = self.vt.saturating_add(tr.delay).min(VT_MAX);
            self.push(t, 1, What::ClientInvoke(tr.client, tr.req));
        }
        (id, label)
    }

    /// An operation that takes effect immediately but is still a crash point.
    /// Returns false if the crash lands here (the operation must then have no effect and
    /// never complete).
    pub fn instant_point(&mut self, class: &'static str) -> (bool, String) {
        let ordinal = self.ordinal(class);
        let label = format!("L{}/{}#{}", self.life, class, ordinal);
        let crash = self.interaction(&label);
        (!crash, label)
    }
}

/// A future that completes with `val` once the scheduler has fired operation `id`.
pub struct Pend<T> {
    pub w: Shared,
    pub id: Option<u64>,
    pub val: Option<T>,
}

impl<T> Pend<T> {
    pub fn new(w: &Shared, id: u64, val: T) -> Self {
        Pend { w: w.clone(), id: Some(id), val: Some(val) }
    }
    /// never completes (crash landed on an instantaneous operation)
    pub fn never(w: &Shared) -> Self {
        Pend { w: w.clone(), id: None, val: None }
    }
}

impl<T: Unpin> Future for Pend<T> {
    type Output = T;
    fn poll(mut self: Pin<&mut Self>, cx: &mut Context<'_>) -> Poll<T> {
        let _g = EnvGuard::enter();
        let id = match self.id {
            Some(id) => id,
            None => return Poll::Pending,
        };
        let fired = {
            let mut w = lock(&self.w);
            match w.ops.get_mut(&id) {
                Some(op) => {
                    if op.fired {
                        w.ops.remove(&id);
                        true
                    } else {
                        op.waker = Some(cx.waker().clone());
                        false
                    }
                }
                None => false,
            }
        };
        if fired {
            self.id = None;
            Poll::Ready(self.val.take().expect("Pend polled after completion"))
        } else {
            Poll::Pending
        }
    }
}

impl<T> Drop for Pend<T> {
    fn drop(&mut self) {
        if let Some(id) = self.id {
            let _g = EnvGuard::enter();
            let mut w = lock(&self.w);
            if let Some(op) = w.ops.remove(&id) {
                if !w.tearing_down && !op.never {
                    w.rec(Kind::OpCancel { label: op.label });
                }
            }
        }
    }
}
