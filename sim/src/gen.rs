//! C13(a) — the async generator in isolation: random generator programs run under random
//! consumer polling schedules, through generate / into_yielded / into_complete / into_try_stream.

use crate::exec::{install_hooks, RunCfg, RunOut, WakeFlag};
use crate::hist::*;
use crate::mon::MonOut;
use crate::profile::Profile;
use crate::rng::Draws;
use crate::world::*;
use futures::future::LocalBoxFuture;
use futures::prelude::*;
use futures::stream::FusedStream;
use omaha_client::async_generator::{generate, GeneratorState, Yield};
use std::pin::Pin;
use std::sync::atomic::Ordering;
use std::sync::{Arc, Mutex};
use std::task::{Context, Poll, Waker};

#[derive(Clone, Debug)]
enum Op {
    Yield(u32),
    YieldAll(Vec<u32>),
    SelfWake,
    AwaitExt,
    DropHandle,
    /// a yield polled once and then abandoned (a yield that lost a select or timeout race)
    YieldOnce(u32),
}

#[derive(Clone, Debug, PartialEq)]
enum Ev {
    Yielded(u32),      // producer: about to yield v
    AfterYield(u32),   // producer: code after the yield of v ran
    Received(u32),     // consumer took v
    Complete(i32),     // consumer got the completion value
    End,               // consumer saw stream end
    ProducerDone(i32), // producer returned
}

struct SelfWakeOnce(bool);
impl Future for SelfWakeOnce {
    type Output = ();
    fn poll(mut self: Pin<&mut Self>, cx: &mut Context<'_>) -> Poll<()> {
        if self.0 {
            Poll::Ready(())
        } else {
            self.0 = true;
            cx.waker().wake_by_ref();
            Poll::Pending
        }
    }
}

fn log(world: &Shared, log: &Arc<Mutex<Vec<Ev>>>, e: Ev) {
    let _g = EnvGuard::enter();
    lock(world).rec(Kind::Note(format!("{:?}", e)));
    log.lock().unwrap().push(e);
}

async fn body(world: Shared, evlog: Arc<Mutex<Vec<Ev>>>, prog: Vec<Op>, ret: i32, co: Yield<u32>) -> i32 {
    let mut co = Some(co);
    for op in prog {
        match op {
            Op::Yield(v) => {
                if let Some(c) = co.as_mut() {
                    log(&world, &evlog, Ev::Yielded(v));
                    c.yield_(v).await;
                    log(&world, &evlog, Ev::AfterYield(v));
                }
            }
            Op::YieldAll(vs) => {
                if let Some(c) = co.as_mut() {
                    for v in &vs {
                        log(&world, &evlog, Ev::Yielded(*v));
                    }
                    let last = vs.last().cloned();
                    c.yield_all(vs).await;
                    if let Some(l) = last {
                        log(&world, &evlog, Ev::AfterYield(l));
                    }
                }
            }
            Op::SelfWake => SelfWakeOnce(false).await,
            Op::AwaitExt => {
                let id = {
                    let _g = EnvGuard::enter();
                    let mut w = lock(&world);
                    w.new_op("ext", None).0
                };
                Pend::new(&world, id, ()).await;
            }
            Op::DropHandle => {
                co = None;
            }
            Op::YieldOnce(v) => {
                if let Some(c) = co.as_mut() {
                    log(&world, &evlog, Ev::Yielded(v));
                    let _ = c.yield_(v).now_or_never();
                }
            }
        }
    }
    log(&world, &evlog, Ev::ProducerDone(ret));
    ret
}

enum Consumer {
    Raw(Pin<Box<dyn FusedStream<Item = GeneratorState<u32, i32>>>>),
    Yielded(Pin<Box<dyn FusedStream<Item = u32>>>),
    Complete(LocalBoxFuture<'static, i32>),
    Try(Pin<Box<dyn FusedStream<Item = Result<u32, i32>>>>),
}

pub fn run_gen(p: &Profile, cfg: &RunCfg) -> (RunOut, MonOut) {
    let mut draws = Draws::new(cfg.seed);
    draws.overrides = cfg.overrides.clone();
    draws.default_zero = cfg.default_zero;
    let world: Shared = Arc::new(Mutex::new(World::new(p.clone(), draws)));
    install_hooks(Some(world.clone()));
    let mut mon = MonOut::default();
    let evlog: Arc<Mutex<Vec<Ev>>> = Arc::new(Mutex::new(vec![]));
    let mut steps = 0u64;
    let pr = "C13";
    let result = std::panic::catch_unwind(std::panic::AssertUnwindSafe(|| {
        // ---- program
        let (prog, ret, variant, eager) = {
            let mut w = lock(&world);
            let n = 1 + w.draws.draw("prog/len", 8) as usize;
            let mut prog = vec![];
            let mut next_v = 1u32;
            let mut dropped = false;
            for i in 0..n {
                let k = w.draws.weighted(&format!("prog/op#{i}"), &[40, 15, 15, 25, 5, 8]);
                match k {
                    0 if !dropped => {
                        prog.push(Op::Yield(next_v));
                        next_v += 1;
                    }
                    1 if !dropped => {
                        let c = w.draws.draw(&format!("prog/op#{i}/n"), 4) as u32;
                        let vs: Vec<u32> = (0..c).map(|j| next_v + j).collect();
                        next_v += c;
                        prog.push(Op::YieldAll(vs));
                    }
                    2 => prog.push(Op::SelfWake),
                    3 => prog.push(Op::AwaitExt),
                    4 => {
                        dropped = true;
                        prog.push(Op::DropHandle);
                    }
                    5 if !dropped => {
                        prog.push(Op::YieldOnce(next_v));
                        next_v += 1;
                    }
                    _ => prog.push(Op::AwaitExt),
                }
            }
            let ret = w.draws.draw("prog/ret", 3) as i32 - 1;
            let variant = w.draws.draw("consumer/variant", 4);
            let eager = w.draws.draw("consumer/eager", 3) != 0;
            (prog, ret, variant, eager)
        };
        let sig = format!("{:?}|v{variant}|e{eager}", prog.iter().map(|o| match o { Op::Yield(_) => 'y', Op::YieldAll(v) => (b'0' + v.len() as u8) as char, Op::SelfWake => 'w', Op::AwaitExt => 'x', Op::DropHandle => 'd', Op::YieldOnce(_) => 'o' }).collect::<String>());
        mon.sig(sig.clone());
        let expected_items: Vec<u32> = prog
            .iter()
            .flat_map(|o| match o {
                Op::Yield(v) => vec![*v],
                Op::YieldAll(vs) => vs.clone(),
                _ => vec![],
            })
            .collect();
        // an abandoned yield may or may not have queued its item: if delivered, it is delivered in order
        let possible_items: Vec<u32> = prog
            .iter()
            .flat_map(|o| match o {
                Op::Yield(v) | Op::YieldOnce(v) => vec![*v],
                Op::YieldAll(vs) => vs.clone(),
                _ => vec![],
            })
            .collect();
        let subseq = |a: &[u32], b: &[u32]| {
            let mut it = b.iter();
            a.iter().all(|x| it.any(|y| y == x))
        };
        let (w2, l2, p2) = (world.clone(), evlog.clone(), prog.clone());
        let mut consumer = match variant {
            0 => Consumer::Raw(Box::pin(generate(move |co| body(w2, l2, p2, ret, co)))),
            1 => {
                // into_yielded needs a unit generator
                let g = generate(move |co| body(w2, l2, p2, ret, co).map(|_| ()));
                Consumer::Yielded(Box::pin(g.into_yielded()))
            }
            2 => Consumer::Complete(generate(move |co| body(w2, l2, p2, ret, co)).into_complete().boxed_local()),
            _ => {
                let g = generate(move |co| body(w2, l2, p2, ret, co).map(|r| if r >= 0 { Ok(()) } else { Err(r) }));
                Consumer::Try(Box::pin(g.into_try_stream()))
            }
        };
        // ---- consumer schedule
        let flag = WakeFlag::new();
        flag.flag.store(true, Ordering::SeqCst); // first poll
        let mut finished = false;
        let mut claimed_terminated: Option<usize> = None;
        let mut pending_polls_without_progress = 0u32;
        let mut polls = 0u64;
        while !finished && steps < 2000 {
            steps += 1;
            let woken = flag.flag.load(Ordering::SeqCst);
            // what happens next: poll (woken or spurious), or fire an external completion
            let (do_poll, spurious) = {
                let mut w = lock(&world);
                let have_ev = !w.queue.is_empty();
                if woken {
                    // a woken consumer may still dawdle while completions arrive
                    let dawdle = !eager && have_ev && w.draws.draw(&format!("sched#{steps}/dawdle"), 3) == 0;
                    (!dawdle, false)
                } else {
                    let sp = w.draws.draw(&format!("sched#{steps}/spurious"), 8) == 7;
                    (sp, sp)
                }
            };
            if do_poll {
                if spurious {
                    lock(&world).stat("sched.spurious_poll");
                }
                polls += 1;
                flag.flag.store(false, Ordering::SeqCst);
                let waker = Waker::from(flag.clone());
                let mut cx = Context::from_waker(&waker);
                let before = evlog.lock().unwrap().len();
                let _g = SutGuard::enter();
                match &mut consumer {
                    Consumer::Raw(s) => match s.as_mut().poll_next(&mut cx) {
                        Poll::Ready(Some(GeneratorState::Yielded(v))) => log(&world, &evlog, Ev::Received(v)),
                        Poll::Ready(Some(GeneratorState::Complete(r))) => log(&world, &evlog, Ev::Complete(r)),
                        Poll::Ready(None) => {
                            log(&world, &evlog, Ev::End);
                            if !s.is_terminated() {
                                mon.viol(pr, "R1", "raw", "stream ended but is_terminated() is false".to_string());
                            }
                            finished = true;
                        }
                        Poll::Pending => {}
                    },
                    Consumer::Yielded(s) => match s.as_mut().poll_next(&mut cx) {
                        Poll::Ready(Some(v)) => log(&world, &evlog, Ev::Received(v)),
                        Poll::Ready(None) => {
                            log(&world, &evlog, Ev::End);
                            if !s.is_terminated() {
                                mon.viol(pr, "R1", "into_yielded", "stream ended but is_terminated() is false".to_string());
                            }
                            finished = true;
                        }
                        Poll::Pending => {}
                    },
                    Consumer::Complete(f) => match f.as_mut().poll(&mut cx) {
                        Poll::Ready(r) => {
                            log(&world, &evlog, Ev::Complete(r));
                            finished = true;
                        }
                        Poll::Pending => {}
                    },
                    Consumer::Try(s) => match s.as_mut().poll_next(&mut cx) {
                        Poll::Ready(Some(Ok(v))) => log(&world, &evlog, Ev::Received(v)),
                        Poll::Ready(Some(Err(r))) => log(&world, &evlog, Ev::Complete(r)),
                        Poll::Ready(None) => {
                            log(&world, &evlog, Ev::End);
                            if !s.is_terminated() {
                                mon.viol(pr, "R1", "into_try_stream", "stream ended but is_terminated() is false".to_string());
                            }
                            finished = true;
                        }
                        Poll::Pending => {}
                    },
                }
                drop(_g);
                // FusedStream contract: once is_terminated() is true the stream must not be polled
                // again, so it must not be true while items or the completion are still to come
                if !finished {
                    let term = match &consumer {
                        Consumer::Raw(s) => s.is_terminated(),
                        Consumer::Yielded(s) => s.is_terminated(),
                        Consumer::Try(s) => s.is_terminated(),
                        Consumer::Complete(_) => false,
                    };
                    if term && claimed_terminated.is_none() {
                        claimed_terminated = Some(evlog.lock().unwrap().len());
                    }
                }
                if evlog.lock().unwrap().len() == before {
                    pending_polls_without_progress += 1;
                } else {
                    pending_polls_without_progress = 0;
                }
                if pending_polls_without_progress > 400 {
                    mon.viol(pr, "R3", "spin", "the consumer is woken over and over without any progress (busy loop)".to_string());
                    break;
                }
                // a consumer that takes an item keeps polling: it is "woken" by its own success
                if !finished && matches!(evlog.lock().unwrap().last(), Some(Ev::Received(_)) | Some(Ev::Complete(_))) && evlog.lock().unwrap().len() != before {
                    flag.flag.store(true, Ordering::SeqCst);
                }
            } else {
                // fire the next external completion, if any
                let ev = lock(&world).queue.pop();
                match ev {
                    Some(std::cmp::Reverse(ev)) => {
                        if let What::Complete(id) = ev.what {
                            let waker = {
                                let mut w = lock(&world);
                                if ev.t > w.vt {
                                    w.vt = ev.t;
                                }
                                match w.ops.get_mut(&id) {
                                    Some(op) => {
                                        op.fired = true;
                                        op.waker.take()
                                    }
                                    None => None,
                                }
                            };
                            let had = waker.is_some();
                            if let Some(wk) = waker {
                                wk.wake();
                            }
                            // R3: a completion of an awaited operation wakes the stream's task
                            if had {
                                mon.count("R3.completions");
                                if !flag.flag.load(Ordering::SeqCst) {
                                    mon.viol(pr, "R3", "ext", "an awaited operation completed but the stream's task was not woken".to_string());
                                }
                            }
                        }
                    }
                    None => {
                        if !woken {
                            // nothing can happen any more: a wake-up was lost
                            mon.viol(pr, "R3", "deadlock", format!("nothing is runnable and nothing is pending, but the stream has not ended ({sig})"));
                            break;
                        }
                    }
                }
            }
        }
        if !finished && steps >= 2000 {
            mon.viol(pr, "R3", "steps", "the run did not terminate within the step bound".to_string());
        }
        // ---- post-hoc oracle
        let log_v = evlog.lock().unwrap().clone();
        let received: Vec<u32> = log_v.iter().filter_map(|e| if let Ev::Received(v) = e { Some(*v) } else { None }).collect();
        mon.count("R1.runs");
        mon.count_n("polls", polls);
        if finished {
            match variant {
                0 | 1 | 3 => {
                    if !(subseq(&expected_items, &received) && subseq(&received, &possible_items)) {
                        mon.viol(pr, "R1", "items", format!("received {:?}, yielded {:?} ({sig})", received, expected_items));
                    }
                }
                _ => {}
            }
            let completes: Vec<i32> = log_v.iter().filter_map(|e| if let Ev::Complete(r) = e { Some(*r) } else { None }).collect();
            let want: Vec<i32> = match variant {
                0 | 2 => vec![ret],
                1 => vec![],
                _ => {
                    if ret >= 0 {
                        vec![]
                    } else {
                        vec![ret]
                    }
                }
            };
            if completes != want {
                mon.viol(pr, "R1", "completion", format!("completions {:?}, expected {:?} ({sig})", completes, want));
            }
            // completion after all items, End last
            if let Some(pos) = log_v.iter().position(|e| matches!(e, Ev::Complete(_))) {
                if log_v[pos..].iter().any(|e| matches!(e, Ev::Received(_))) {
                    mon.viol(pr, "R1", "order", "an item was received after the completion".to_string());
                }
            }
        }
        if let Some(at) = claimed_terminated {
            mon.count("R1.is_terminated_checked");
            if log_v[at..].iter().any(|e| matches!(e, Ev::Received(_) | Ev::Complete(_))) {
                mon.viol(pr, "R1", "is_terminated", format!("is_terminated() was true although the stream still had to deliver {:?} ({sig})", &log_v[at..]));
            }
        }
        // R2: code after a yield runs only after the consumer took the item
        for (i, e) in log_v.iter().enumerate() {
            if let Ev::AfterYield(v) = e {
                mon.count("R2.yields");
                let taken = log_v[..i].iter().any(|x| *x == Ev::Received(*v));
                // into_complete discards items inside the adaptor: receipt is not observable there
                if !taken && variant != 2 {
                    mon.viol(pr, "R2", "backpressure", format!("code after the yield of {v} ran before the consumer had taken it ({sig})"));
                }
            }
        }
        if mon.sample.is_none() {
            let vname = ["generate", "into_yielded", "into_complete", "into_try_stream"][variant as usize];
            mon.sample = Some(serde_json::json!({"program": format!("{:?}", prog), "variant": vname, "log": format!("{:?}", log_v)}));
        }
    }));
    install_hooks(None);
    let panic = match result {
        Ok(()) => None,
        Err(_) => crate::take_last_panic(),
    };
    if let Some(pi) = &panic {
        if pi.in_sut {
            mon.viol(pr, "R1", "panic", format!("panic in the generator: {} at {}", pi.msg, pi.location));
        }
    }
    let (hist, decisions, stats, vt) = {
        let mut w = lock(&world);
        w.tearing_down = true;
        (std::mem::take(&mut w.hist), std::mem::take(&mut w.draws.log), w.stats.clone(), w.vt)
    };
    (RunOut { hist, decisions, stats, panic, steps, vt_end: vt }, mon)
}
