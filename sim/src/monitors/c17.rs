//! C17 — the mock Omaha server conforms to the client it doubles for.

use crate::exec::RunOut;
use crate::hist::*;
use crate::mon::*;
use crate::seg;
use std::collections::BTreeMap;

pub fn monitor(out: &RunOut) -> MonOut {
    let mut m = MonOut::default();
    let p = "C17";
    let h = &out.hist;
    if let Some(pi) = &out.panic {
        if pi.in_sut {
            m.viol(p, "R1", format!("{}|{}", pi.location, pi.msg.chars().take(40).collect::<String>().replace(' ', "_")), format!("panic: {} at {}", pi.msg, pi.location));
        }
    }
    // requests built directly with the client's builder: update check + event on one app
    for r in h.iter() {
        if let Kind::MockDirectEvent { apps, answered_apps, parses, failure } = &r.kind {
            m.count("R1.direct_event_reports_under_a_cohort_assertion");
            if let Some(f) = failure {
                m.viol(p, "R1", format!("mock|direct-event|{}", f.chars().take(60).collect::<String>().replace(' ', "_")), format!("the mock server failed on an event report from an app outside the asserted cohort (the assertion is about update checks): {f}"));
            } else if !*parses || answered_apps != apps {
                m.viol(p, "R1", "direct-event", format!("event report answered with apps {:?} (parses={parses}), reported apps {:?}", answered_apps, apps));
            }
        }
        if let Kind::MockDirect { apps, doc, parses, cfg, failure } = &r.kind {
            m.count("R1.direct_mixed_requests");
            let site = "direct-mixed";
            if let Some(f) = failure {
                m.viol(p, "R1", format!("mock|direct|{}", f.chars().take(60).collect::<String>().replace(' ', "_")), format!("the mock server failed on a request with update check and event on the same app: {f}"));
                continue;
            }
            let doc = match doc {
                Some(d) => d,
                None => {
                    m.viol(p, "R1", site, "the mock's answer to a mixed request is not JSON".to_string());
                    continue;
                }
            };
            let dapps = doc_apps(doc);
            let got: Vec<String> = dapps.iter().filter_map(|a| str_field(a, "appid")).collect();
            let want: Vec<String> = apps.iter().map(|a| a.0.clone()).collect();
            if got != want {
                m.viol(p, "R1", site, format!("answer lists apps {:?}, request listed {:?}", got, want));
                continue;
            }
            let any_invalid = want.iter().any(|id| cfg.get(id).map(|k| k == "InvalidResponse").unwrap_or(false));
            if *parses == any_invalid {
                m.viol(p, "R1", site, format!("client parser accepts={parses} but configured decisions are {:?}", cfg));
            }
            for a in &dapps {
                let id = str_field(a, "appid").unwrap_or_default();
                let k = cfg.get(&id).cloned().unwrap_or_default();
                let st = a.get("updatecheck").and_then(|u| u.get("status")).and_then(|s| s.as_str());
                let want = match k.as_str() {
                    "NoUpdate" => Some("noupdate"),
                    "Update" | "UrgentUpdate" | "InvalidURL" => Some("ok"),
                    _ => None,
                };
                if st != want {
                    m.viol(p, "R4", site, format!("app {id} asked for an update check (and reported an event): answered updatecheck status {:?}, configured decision {k}", st));
                }
            }
        }
    }
    for l in seg::lives(h) {
        if !l.started {
            continue;
        }
        let xs = seg::exchanges(h, l.start, l.end);
        let mut answers: BTreeMap<u64, (bool, Option<bool>, Option<bool>, BTreeMap<String, String>, bool)> = BTreeMap::new();
        for i in l.start..l.end {
            match &h[i].kind {
                Kind::MockAnswer { id, parses, own, other, cfg, forced_etag } => {
                    answers.insert(*id, (*parses, *own, *other, cfg.clone(), *forced_etag));
                }
                Kind::MockFailure { id, what } => {
                    // the request classes the statement covers: update checks and event reports
                    let kind = xs.iter().find(|x| x.id == *id).map(|x| x.kind.clone());
                    if matches!(kind, Some(ReqKind::UpdateCheck) | Some(ReqKind::Event)) || *id == u64::MAX {
                        let site = what.split(": ").last().unwrap_or("").chars().take(80).collect::<String>().replace(' ', "_");
                        m.viol(p, "R1", format!("mock|{site}"), format!("the mock server failed on a request the client library built: {what}"));
                    }
                }
                _ => {}
            }
        }
        let (checks, _) = seg::checks(h, &l);
        for x in &xs {
            if !matches!(x.kind, ReqKind::UpdateCheck | ReqKind::Event) {
                continue;
            }
            let (parses, own, other, cfg, forced) = match answers.get(&x.id) {
                Some(a) => a.clone(),
                None => continue,
            };
            let r = match x.delivered() {
                Some(r) => r,
                None => continue,
            };
            let site = format!("L{}@{}", l.life, x.send_idx);
            m.count("R1.answers");
            let req_ids: Vec<String> = x.apps().iter().filter_map(|a| str_field(a, "appid")).collect();
            let doc = match &r.doc {
                Some(d) => d.clone(),
                None => {
                    m.viol(p, "R1", &site, "the mock's answer is not JSON".to_string());
                    continue;
                }
            };
            let apps = doc_apps(&doc);
            let got_ids: Vec<String> = apps.iter().filter_map(|a| str_field(a, "appid")).collect();
            if got_ids != req_ids {
                m.viol(p, "R1", &site, format!("answer lists apps {:?}, request listed {:?}", got_ids, req_ids));
            }
            let any_invalid = x.kind == ReqKind::UpdateCheck && req_ids.iter().any(|id| cfg.get(id).map(|k| k == "InvalidResponse").unwrap_or(false));
            if parses == any_invalid {
                m.viol(p, "R1", &site, format!("client parser accepts={parses} but configured decisions are {:?}", cfg));
            }
            if x.kind == ReqKind::UpdateCheck {
                // R4/R1: the configured decision (as of handling time) per app
                for a in &apps {
                    let id = str_field(a, "appid").unwrap_or_default();
                    let k = cfg.get(&id).cloned().unwrap_or_default();
                    let st = a.get("updatecheck").and_then(|u| u.get("status")).and_then(|s| s.as_str());
                    let want = match k.as_str() {
                        "NoUpdate" => Some("noupdate"),
                        "Update" | "UrgentUpdate" | "InvalidURL" => Some("ok"),
                        _ => None,
                    };
                    m.count("R4.decisions");
                    if st != want {
                        m.viol(p, "R4", &site, format!("app {id}: answered updatecheck status {:?}, configured decision {k}", st));
                    }
                    if k == "UrgentUpdate" && a.get("updatecheck").and_then(|u| u.get("_urgent_update")).and_then(|v| v.as_bool()) != Some(true) {
                        m.viol(p, "R4", &site, format!("app {id}: urgent update not marked"));
                    }
                }
                m.sig(format!("{:?}|cup{}|{}", cfg.values().collect::<Vec<_>>(), l.cup, l.service_url.len()));
            }
            // R2: ETag accepted for this exchange and for no other
            if l.cup && !forced {
                m.count("R2.cup_exchanges");
                if own != Some(true) {
                    m.viol(p, "R2", &site, format!("the client's verifier does not accept the mock's ETag for this exchange (accepts={:?})", own));
                }
                if other == Some(true) {
                    m.viol(p, "R2", &site, "the client's verifier accepts the mock's ETag for another exchange".to_string());
                }
                if other.is_some() {
                    m.count("R2.cross_checked");
                }
            }
        }
        // R3: the state machine reaches the configured outcome
        for c in &checks {
            if !c.complete {
                continue;
            }
            let cxs = seg::exchanges(h, c.start, c.end);
            let uc = match cxs.iter().filter(|x| x.kind == ReqKind::UpdateCheck).last() {
                Some(x) => x,
                None => continue,
            };
            let (_parses, _own, _other, cfg, forced) = match answers.get(&uc.id) {
                Some(a) => a.clone(),
                None => continue,
            };
            if uc.delivered().map(|r| r.tamper != "none").unwrap_or(true) {
                continue;
            }
            let site = format!("L{}@{}", c.life, c.start);
            m.count("R3.checks");
            let states: Vec<&StateRec> = c.events.iter().filter_map(|(_, e)| if let EventRec::State(s) = e { Some(s) } else { None }).collect();
            let req_ids: Vec<String> = uc.apps().iter().filter_map(|a| str_field(a, "appid")).collect();
            let kinds: Vec<String> = req_ids.iter().map(|id| cfg.get(id).cloned().unwrap_or_default()).collect();
            let expect = if l.cup && forced {
                "cup_error"
            } else if kinds.iter().any(|k| k == "InvalidResponse") {
                "parse_error"
            } else if kinds.iter().all(|k| k == "NoUpdate") {
                "no_update"
            } else {
                "update"
            };
            let ok = match expect {
                "cup_error" => matches!(c.result, Some(Err(ErrRec::CupValidation))),
                "parse_error" => matches!(c.result, Some(Err(ErrRec::ResponseParser))) && states.contains(&&StateRec::ErrorCheckingForUpdate),
                "no_update" => states.contains(&&StateRec::NoUpdateAvailable) && matches!(c.result, Some(Ok(_))),
                _ => (c.start..c.end).any(|i| matches!(h[i].kind, Kind::Installer(InstallerRec::CreatePlan { .. }))),
            };
            if !ok {
                m.viol(p, "R3", &site, format!("configured {:?} (forced etag={forced}) should lead to {expect}; states {:?}, result {:?}", kinds, states, c.result));
            }
        }
    }
    if m.sample.is_none() {
        if let Some(s) = m.sigs.first() {
            m.sample = Some(serde_json::json!({ "configured|cup|url": s }));
        }
    }
    m
}
