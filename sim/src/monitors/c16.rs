//! C16 — the response parser is total and faithful (in situ: bytes arriving from the simulated
//! network reach the parser through the state machine, CUP off so that tampered bytes get there).

use crate::exec::RunOut;
use crate::hist::*;
use crate::mon::*;
use crate::seg;
use serde_json::Value;

fn strip_nulls(v: &Value) -> Value {
    match v {
        Value::Object(m) => Value::Object(m.iter().filter(|(_, x)| !x.is_null()).map(|(k, x)| (k.clone(), strip_nulls(x))).collect()),
        Value::Array(a) => Value::Array(a.iter().map(strip_nulls).collect()),
        other => other.clone(),
    }
}

/// independent reading of delivered bytes: optional anti-XSSI prefix, then JSON
fn read_body(body: &[u8]) -> Option<Value> {
    let b = body.strip_prefix(b")]}'\n").unwrap_or(body);
    // A string the parser skips (a member the protocol does not define) is not checked for valid
    // UTF-8 by it; the independent reading therefore falls back to a lossy decoding. A string the
    // parser does read is checked, so a document accepted with such bytes differs from this
    // reading only inside skipped members, which the comparison ignores anyway.
    serde_json::from_slice(b).ok().or_else(|| serde_json::from_str(&String::from_utf8_lossy(b)).ok())
}

pub fn monitor(out: &RunOut) -> MonOut {
    let mut m = MonOut::default();
    let p = "C16";
    let h = &out.hist;
    if let Some(pi) = &out.panic {
        if pi.in_sut {
            m.viol(p, "R4", format!("{}|{}", pi.location, pi.msg.chars().take(50).collect::<String>().replace(' ', "_")), format!("panic while parsing / processing a response: {} at {}", pi.msg, pi.location));
        }
    }
    for l in seg::lives(h) {
        if !l.started {
            continue;
        }
        let (checks, _) = seg::checks(h, &l);
        for c in &checks {
            if !c.complete {
                continue;
            }
            let xs = seg::exchanges(h, c.start, c.end);
            let uc = match xs.iter().filter(|x| x.kind == ReqKind::UpdateCheck).last() {
                Some(x) => x,
                None => continue,
            };
            let r = match uc.delivered() {
                Some(r) if seg::accepted_by_cup(c.cup, r) && seg::is_2xx(r.status) => r,
                _ => continue,
            };
            let site = format!("L{}@{}", c.life, uc.deliver_idx.unwrap_or(c.start));
            m.count("R1.responses_reaching_the_parser");
            let announced: Vec<&Value> = c.events.iter().filter_map(|(_, e)| if let EventRec::ServerResponse(v) = e { Some(v) } else { None }).collect();
            let parse_err = matches!(c.result, Some(Err(ErrRec::ResponseParser)));
            m.sig(format!("{}|{:?}|announced{}", r.tamper.split('@').next().unwrap_or(""), r.grammatical, announced.len()));
            match r.grammatical {
                Some(true) => {
                    // R1: decoded exactly as the document says
                    let doc = r.doc.clone().unwrap_or(Value::Null);
                    m.count("R1.grammatical_documents");
                    if parse_err || announced.len() != 1 {
                        m.viol(p, "R1", &site, format!("a well-formed document was not accepted by the parser (result {:?})", c.result.as_ref().map(|_| ())));
                    } else if let Some(exp) = expected_announce(&doc) {
                        if canon(&strip_nulls(announced[0])) != canon(&strip_nulls(&exp)) {
                            m.viol(p, "R1", &site, format!("decoded response differs from the document: got {} expected {}", canon(announced[0]), canon(&exp)));
                        }
                        // the prefix is transparent: nothing else to compare, the document is the same
                    }
                }
                Some(false) => {
                    // R3: a required field is missing / wrongly typed: rejected
                    m.count("R3.ungrammatical_documents");
                    if !parse_err || !announced.is_empty() {
                        m.viol(p, "R3", &site, format!("a document with a missing or wrongly typed required field was accepted ({})", r.tamper));
                    }
                }
                None => {
                    // unknown bytes (garbage, truncation, bit flip): value or error, never a panic; if a
                    // value is announced it must be a faithful reading of the bytes
                    m.count("R4.arbitrary_bytes");
                    if announced.len() == 1 && !r.body.is_empty() {
                        // a replacement character in what is announced must be spelled by the bytes
                        // (a lenient decoding of ill-formed UTF-8 inside a string the parser reads would
                        // produce one out of nothing)
                        let spelled = r.body.windows(3).any(|w| w == [0xef, 0xbf, 0xbd]);
                        if !spelled && canon(announced[0]).contains('\u{fffd}') {
                            m.viol(p, "R1", &site, "the announced response contains U+FFFD although the delivered bytes do not spell it: ill-formed UTF-8 was accepted and rewritten".to_string());
                        }
                        match read_body(&r.body).and_then(|v| expected_announce(&v)) {
                            Some(exp) => {
                                if canon(&strip_nulls(announced[0])) != canon(&strip_nulls(&exp)) {
                                    m.viol(p, "R1", &site, format!("decoded response differs from an independent reading of the bytes: got {} expected {}", canon(announced[0]), canon(&exp)));
                                }
                            }
                            None => m.viol(p, "R1", &site, "a response was announced for bytes that are not a JSON response document".to_string()),
                        }
                    }
                }
            }
            // R2: full URLs as the embedder computes them = codebases x package names
            for i in c.start..c.end {
                if let Kind::Installer(InstallerRec::CreatePlan { response, full_urls, .. }) = &h[i].kind {
                    let offered: Vec<&Value> = response
                        .get("app")
                        .and_then(|a| a.as_array())
                        .into_iter()
                        .flatten()
                        .filter(|a| a.get("updatecheck").and_then(|u| u.get("status")).and_then(|s| s.as_str()) == Some("ok"))
                        .collect();
                    // the document as delivered (not the library's parse) defines the expectation
                    let as_delivered = if r.grammatical == Some(true) { r.doc.clone() } else { read_body(&r.body) };
                    let doc_apps_ok: Vec<Value> = as_delivered
                        .as_ref()
                        .map(doc_apps)
                        .unwrap_or_default()
                        .into_iter()
                        .filter(|a| a.get("updatecheck").and_then(|u| u.get("status")).and_then(|s| s.as_str()) == Some("ok"))
                        .collect();
                    if doc_apps_ok.len() == full_urls.len() && offered.len() == full_urls.len() {
                        for (a, got) in doc_apps_ok.iter().zip(full_urls.iter()) {
                            m.count("R2.full_url_sets");
                            let cbs: Vec<String> = a["updatecheck"]["urls"]["url"].as_array().map(|u| u.iter().filter_map(|x| str_field(x, "codebase")).collect()).unwrap_or_default();
                            let pk: Vec<String> = a["updatecheck"]["manifest"]["packages"]["package"].as_array().map(|u| u.iter().filter_map(|x| str_field(x, "name")).collect()).unwrap_or_default();
                            let mut want = vec![];
                            for cb in &cbs {
                                for n in &pk {
                                    want.push(format!("{cb}{n}"));
                                }
                            }
                            if *got != want {
                                m.viol(p, "R2", &site, format!("full URLs {:?}, the document gives codebases {:?} x packages {:?}", got, cbs, pk));
                            }
                        }
                    }
                }
            }
            if m.sample.is_none() && r.grammatical == Some(true) {
                m.sample = Some(serde_json::json!({"document": r.doc, "decoded": announced.first()}));
            }
        }
    }
    m
}
