//! C14 — no input can crash the updater; storage failures are harmless.

use crate::exec::RunOut;
use crate::hist::*;
use crate::mon::*;
use crate::seg;
use serde_json::Value;

fn panic_site(msg: &str, loc: &str) -> String {
    // a stable, narrow identification of a panic: where it was raised and the first words
    let m: String = msg.chars().take(60).collect();
    format!("{}|{}", loc, m.replace(' ', "_"))
}

pub fn monitor(out: &RunOut) -> MonOut {
    let mut m = MonOut::default();
    let p = "C14";
    let h = &out.hist;
    m.count("R1.runs");
    if let Some(pi) = &out.panic {
        if pi.in_sut {
            m.viol(p, "R1", panic_site(&pi.msg, &pi.location), format!("panic while the code under test was running: {} at {}", pi.msg, pi.location));
        }
    }
    for l in seg::lives(h) {
        if !l.started {
            continue;
        }
        let (checks, _) = seg::checks(h, &l);
        for c in &checks {
            m.count("R2.checks_opened");
            let opened = c.events.iter().any(|(_, e)| matches!(e, EventRec::State(StateRec::CheckingForUpdates(_))));
            if opened && c.result.is_none() && l.end_why == "stuck" {
                m.viol(p, "R2", format!("L{}@{}", c.life, c.start), "an opened check never delivered a result: the flow came to a halt".to_string());
            }
            if c.result.is_some() {
                m.count("R2.results_delivered");
            }
            // bounded progress: a check that is still open when the run's step budget is used up and
            // has sent request after request is not going to end (livelock while the service is down)
            if opened && c.result.is_none() && l.end_why == "step_limit" {
                let sent = (c.start..c.end).filter(|i| matches!(h[*i].kind, Kind::HttpSend { .. })).count();
                if sent > 12 {
                    m.viol(p, "R2", format!("L{}@{}", c.life, c.start), format!("an opened check sent {sent} requests and never delivered a result (step budget used up): it does not terminate"));
                }
            }
        }
        if l.end_why == "stuck" && l.mode_start && out.panic.is_none() {
            // continuous operation must always have something pending
            let gone = (l.start..l.end).any(|i| matches!(h[i].kind, Kind::StreamDrop | Kind::StreamEnd));
            if !gone {
                m.viol(p, "R2", format!("L{}", l.life), "the state machine came to a halt with nothing pending".to_string());
            }
        }
    }
    // what was hostile in this run (for distinct counting)
    let mut tags: Vec<String> = out.stats.keys().filter(|k| k.starts_with("disk.") || k.starts_with("time.") || k.starts_with("config.") || k.starts_with("net.body") || k.starts_with("net.status")).cloned().collect();
    tags.sort();
    m.sig(tags.join(","));
    m.sample = Some(serde_json::json!({"faults_in_run": tags, "records": h.len()}));
    m
}

/// The observable behaviour the statement talks about: requests sent and events announced.
pub fn behaviour(out: &RunOut) -> Vec<String> {
    let mut v = vec![];
    for r in &out.hist {
        match &r.kind {
            Kind::HttpSend { uri, method, headers, body_json, kind, .. } => {
                let b = body_json.as_ref().map(canon).unwrap_or_default();
                v.push(format!("SEND {method} {uri} {:?} {:?} {b}", headers, kind));
            }
            Kind::Event(e) => {
                let val: Value = serde_json::to_value(e).unwrap_or(Value::Null);
                v.push(format!("EVENT {}", canon(&val)));
            }
            _ => {}
        }
    }
    v
}
