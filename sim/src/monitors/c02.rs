//! C02 — unauthenticated responses never influence the updater.

use super::common::*;
use crate::exec::RunOut;
use crate::hist::*;
use crate::mon::*;
use crate::seg::{self, Exchange};

fn next_policy_state(h: &History, from: usize, life: u32) -> Option<(Vec<AppRec>, SchedRec, ProtoRec, usize)> {
    for i in from..h.len() {
        if h[i].life != life {
            return None;
        }
        if let Kind::Policy(PolicyRec::ComputeNext { apps, sched, proto, .. }) | Kind::Policy(PolicyRec::CheckAllowed { apps, sched, proto, .. }) = &h[i].kind {
            return Some((apps.clone(), sched.clone(), proto.clone(), i));
        }
    }
    None
}

fn prev_policy_state(h: &History, before: usize, life: u32) -> Option<(Vec<AppRec>, SchedRec, ProtoRec)> {
    for i in (0..before).rev() {
        if h[i].life != life {
            return None;
        }
        if let Kind::Policy(PolicyRec::ComputeNext { apps, sched, proto, .. }) | Kind::Policy(PolicyRec::CheckAllowed { apps, sched, proto, .. }) = &h[i].kind {
            return Some((apps.clone(), sched.clone(), proto.clone()));
        }
    }
    None
}

pub fn monitor(out: &RunOut) -> MonOut {
    // R2 by the poll-interval model
    let mut m = super::c07::run(out, "C02");
    let p = "C02";
    let h = &out.hist;
    for l in seg::lives(h) {
        if !l.started || !l.cup {
            continue;
        }
        let (checks, waits) = seg::checks(h, &l);
        for c in &checks {
            let xs = seg::exchanges(h, c.start, c.end);
            for (k, x) in xs.iter().enumerate() {
                let r = match x.delivered() {
                    Some(r) => r,
                    None => continue,
                };
                let site = format!("L{}@{}", c.life, x.deliver_idx.unwrap_or(x.send_idx));
                if r.authentic == Some(true) {
                    // R9: an authentic, usable update-check response is acted upon
                    if x.kind == ReqKind::UpdateCheck && seg::is_2xx(r.status) && r.grammatical == Some(true) && c.complete {
                        m.count("R9.authentic_acted_upon");
                        let ann = c.events.iter().any(|(i, e)| *i > x.deliver_idx.unwrap() && matches!(e, EventRec::ServerResponse(_)));
                        if !ann {
                            m.viol(p, "R9", &site, "an authentic, well-formed response was not announced".to_string());
                        }
                    }
                    continue;
                }
                let di = x.deliver_idx.unwrap();
                match x.kind {
                    ReqKind::UpdateCheck => {
                        m.count("R6.unauthenticated_update_check");
                        // no further update-check request in this check, no backoff timer after it
                        if xs[k + 1..].iter().any(|y| y.kind == ReqKind::UpdateCheck) {
                            m.viol(p, "R6", &site, format!("another update-check request followed an unauthenticated response ({})", r.tamper));
                        }
                        for i in di..c.end {
                            match &h[i].kind {
                                Kind::TimerArm { .. } => m.viol(p, "R6", &site, "a timer was armed after an unauthenticated update-check response".to_string()),
                                Kind::Installer(InstallerRec::CreatePlan { .. }) | Kind::Installer(InstallerRec::PerformInstall { .. }) => {
                                    m.viol(p, "R3", &site, format!("installer invoked after an unauthenticated response ({})", r.tamper))
                                }
                                Kind::Event(EventRec::ServerResponse(_)) => m.viol(p, "R1", &site, format!("server response announced for an unauthenticated response ({})", r.tamper)),
                                Kind::HttpSend { kind: ReqKind::Event, .. } => m.viol(p, "R6", &site, "an event report followed an unauthenticated update-check response".to_string()),
                                _ => {}
                            }
                        }
                        if c.complete {
                            match &c.result {
                                Some(Err(ErrRec::CupValidation)) => {}
                                other => m.viol(p, "R6", &site, format!("check result {:?} after an unauthenticated update-check response, expected a validation error", other)),
                            }
                            let st: Vec<&StateRec> = c.events.iter().filter_map(|(_, e)| if let EventRec::State(s) = e { Some(s) } else { None }).collect();
                            if st.last() != Some(&&StateRec::ErrorCheckingForUpdate) {
                                m.viol(p, "R6", &site, format!("states {:?} after an unauthenticated update-check response", st));
                            }
                            // R4/R5/R6: next policy call sees the same apps and last-contact time, failures + 1
                            if c.mode_start {
                                if let (Some((a0, s0, p0)), Some((a1, s1, p1, _))) = (
                                    match &h[c.start].kind {
                                        Kind::Policy(PolicyRec::CheckAllowed { apps, sched, proto, .. }) => Some((apps.clone(), sched.clone(), proto.clone())),
                                        _ => None,
                                    },
                                    next_policy_state(h, c.end, c.life),
                                ) {
                                    m.count("R4.state_after_failed_check");
                                    if a0 != a1 {
                                        m.viol(p, "R4", &site, "app set (cohort / user counting) changed by a check that ended in an unauthenticated response".to_string());
                                    }
                                    if s0.last_update_time != s1.last_update_time {
                                        m.viol(p, "R5", &site, "last-contact time changed by a check that ended in an unauthenticated response".to_string());
                                    }
                                    if p1.failures != p0.failures.saturating_add(1) {
                                        m.viol(p, "R6", &site, format!("consecutive failures went {} -> {} over a check with a validation failure", p0.failures, p1.failures));
                                    }
                                }
                            }
                        }
                    }
                    ReqKind::Event => {
                        m.count("R7.unauthenticated_event_report");
                        // lost-event accounting, no retry
                        let next_send = xs.get(k + 1).map(|y| y.send_idx).unwrap_or(c.end);
                        let lost = (di..next_send.min(c.end)).filter(|i| matches!(h[*i].kind, Kind::Metric(MetricRec::OmahaEventLost { .. }))).count();
                        if lost == 0 {
                            m.viol(p, "R7", &site, "an unauthenticated event-report response was not recorded as a lost event".to_string());
                        }
                        let me = body_minus_requestid(x);
                        if xs[k + 1..].iter().any(|y| y.kind == ReqKind::Event && body_minus_requestid(y) == me) {
                            m.viol(p, "R7", &site, "an event report was re-sent after an unauthenticated response".to_string());
                        }
                    }
                    _ => {}
                }
            }
        }
        for w in &waits {
            let xs: Vec<Exchange> = seg::exchanges(h, w.start, w.end);
            for x in xs.iter().filter(|x| x.kind == ReqKind::Ping) {
                let r = match x.delivered() {
                    Some(r) => r,
                    None => continue,
                };
                if r.authentic == Some(true) {
                    continue;
                }
                let di = x.deliver_idx.unwrap();
                let site = format!("L{}@{}", w.life, di);
                m.count("R8.unauthenticated_ping");
                if let (Some((a0, s0, p0)), Some((a1, s1, p1, _))) = (prev_policy_state(h, x.send_idx, w.life), next_policy_state(h, di, w.life)) {
                    if a0 != a1 {
                        m.viol(p, "R4", &site, "app set changed by an unauthenticated ping response".to_string());
                    }
                    if s0.last_update_time != s1.last_update_time {
                        m.viol(p, "R5", &site, "last-contact time changed by an unauthenticated ping response".to_string());
                    }
                    if p1.failures != p0.failures.saturating_add(1) {
                        m.viol(p, "R8", &site, format!("consecutive failures went {} -> {} over a failed ping", p0.failures, p1.failures));
                    }
                }
            }
        }
    }
    if m.sample.is_none() {
        if let Some(s) = m.sigs.first() {
            m.sample = Some(serde_json::json!({ "case": s }));
        }
    }
    m
}
