//! C12 — scheduled checks wait for the policy's time and minimum wait.

use crate::exec::RunOut;
use crate::hist::*;
use crate::mon::*;
use crate::seg;
use std::collections::BTreeMap;

pub fn monitor(out: &RunOut) -> MonOut {
    let mut m = MonOut::default();
    let p = "C12";
    let h = &out.hist;
    for l in seg::lives(h) {
        if !l.started || !l.mode_start {
            continue;
        }
        let (_checks, waits) = seg::checks(h, &l);
        // control requests: (invoke idx, reply idx, reply, source)
        let mut reqs: Vec<(usize, Option<usize>, Option<CtlReply>, Src)> = vec![];
        let mut open: BTreeMap<(u32, u32), usize> = BTreeMap::new();
        for i in l.start..l.end {
            match &h[i].kind {
                Kind::CtlInvoke { client, req, source } => {
                    open.insert((*client, *req), reqs.len());
                    reqs.push((i, None, None, *source));
                }
                Kind::CtlReply { client, req, reply } => {
                    if let Some(k) = open.remove(&(*client, *req)) {
                        reqs[k].1 = Some(i);
                        reqs[k].2 = Some(reply.clone());
                    }
                }
                _ => {}
            }
        }
        // walk the waits
        let mut expect: Option<(usize, TimingRec)> = None; // after ComputeNext: expect schedule + timers
        let mut announced = false;
        let mut armed: Vec<(u64, TimerArg, bool)> = vec![]; // timers of the current wait: id, arg, fired
        let mut reboot_timers: Vec<(u64, bool, bool)> = vec![]; // 30-minute timers of the reboot wait: id, fired, accounted for a question
        let mut reboot_questions_in_wait = 0usize;
        let mut prev_question_idx = 0usize;
        let mut used_req = vec![false; reqs.len()];
        // the policy refused the check that the last wait led to: the next thing is the policy's
        // next-time question, not a wait of the machine's own
        let mut refused_at: Option<usize> = None;
        for i in l.start..l.end {
            let site = format!("L{}@{}", l.life, i);
            let in_wait = waits.iter().any(|w| i > w.start && i < w.end);
            match &h[i].kind {
                Kind::Policy(PolicyRec::ComputeNext { answer, .. }) => {
                    if refused_at.take().is_some() {
                        m.count("R1.waits_after_a_refused_check");
                    }
                    // arming is judged when the wait ends
                    expect = Some((i, answer.clone()));
                    announced = false;
                    armed.clear();
                    m.sig(format!("timing:{}{}|min{}", answer.time.wall.is_some() as u8, answer.time.mono.is_some() as u8, answer.min_wait_ns.is_some()));
                }
                Kind::Event(EventRec::Schedule(s)) => {
                    if let Some((_, t)) = &expect {
                        if !announced {
                            m.count("R1.announcements");
                            if s.next_update_time.as_ref() != Some(t) {
                                m.viol(p, "R1", &site, format!("announced next update time {:?}, the policy answered {:?}", s.next_update_time, t));
                            }
                            announced = true;
                        }
                    }
                }
                Kind::TimerArm { id, arg, .. } => {
                    // the reboot wait's own 30-minute timer
                    if in_wait && *arg == TimerArg::For(1_800_000_000_000) {
                        reboot_timers.push((*id, false, false));
                        continue;
                    }
                    if let Some(at) = refused_at {
                        m.viol(p, "R1", &site, format!("timer armed for {:?} after the policy refused the check at #{at}, before the policy was asked for the next time", arg));
                    }
                    if let Some((_, t)) = &expect {
                        if !announced {
                            m.viol(p, "R1", &site, "a wait timer was armed before the schedule was announced".to_string());
                        }
                        let want_until = TimerArg::Until(t.time.clone());
                        let want_for = t.min_wait_ns.map(TimerArg::For);
                        if *arg == want_until || Some(arg.clone()) == want_for {
                            armed.push((*id, arg.clone(), false));
                        } else {
                            m.viol(p, "R1", &site, format!("timer armed for {:?}, the policy answered {:?}", arg, t));
                        }
                    }
                }
                Kind::TimerFire { id } => {
                    for a in armed.iter_mut() {
                        if a.0 == *id {
                            a.2 = true;
                        }
                    }
                    for t in reboot_timers.iter_mut() {
                        if t.0 == *id {
                            t.1 = true;
                        }
                    }
                }
                Kind::Policy(PolicyRec::CheckAllowed { answer, .. }) => {
                    if !in_wait && answer.params().is_none() {
                        refused_at = Some(i);
                    }
                    // the wait that ends here
                    if let Some((at, t)) = expect.take() {
                        m.count("R1.waits");
                        check_arming(&mut m, p, &site, &t, &armed, at);
                        let all_fired = !armed.is_empty() && armed.iter().all(|a| a.2);
                        // attributable to a control request?
                        let by_request = reqs.iter().any(|(inv, rep, reply, _)| {
                            *inv < i && rep.map(|r| r > i).unwrap_or(true) && matches!(reply, Some(CtlReply::Started) | Some(CtlReply::Throttled) | None)
                        });
                        m.sig(format!("wait-end|timers{}|fired{}|by_request{}|late_order{:?}", armed.len(), armed.iter().filter(|a| a.2).count(), by_request, armed.iter().map(|a| matches!(a.1, TimerArg::For(_))).collect::<Vec<_>>()));
                        m.count("R2.check_starts");
                        if all_fired {
                            m.count("R2.timer_driven");
                        }
                        if !all_fired && !by_request {
                            m.viol(
                                p,
                                "R2",
                                &site,
                                format!("a scheduled check began although not all timers of the wait had fired: {:?}", armed.iter().map(|a| (&a.1, a.2)).collect::<Vec<_>>()),
                            );
                        }
                        if !all_fired && by_request {
                            m.count("R2.request_driven");
                        }
                    }
                    armed.clear();
                }
                Kind::HttpSend { kind: ReqKind::Ping, .. } => {
                    if let Some((at, t)) = expect.take() {
                        m.count("R3.pings");
                        check_arming(&mut m, p, &site, &t, &armed, at);
                        let all_fired = !armed.is_empty() && armed.iter().all(|a| a.2);
                        if !all_fired {
                            m.viol(p, "R3", &site, format!("a ping was sent although not all timers of the wait had fired: {:?}", armed.iter().map(|a| (&a.1, a.2)).collect::<Vec<_>>()));
                        }
                    }
                    armed.clear();
                }
                Kind::Event(EventRec::State(StateRec::WaitingForReboot)) => {
                    reboot_questions_in_wait = 0;
                    reboot_timers.clear();
                }
                Kind::Policy(PolicyRec::RebootAllowed { .. }) => {
                    if in_wait {
                        reboot_questions_in_wait += 1;
                        if reboot_questions_in_wait > 1 {
                            m.count("R3.reboot_reasked");
                            // any 30-minute timer of this wait that has fired and has not yet been the
                            // reason of a question (when the next one is armed is the library's business)
                            let fired = reboot_timers.iter().position(|t| t.1 && !t.2);
                            if let Some(k) = fired {
                                reboot_timers[k].2 = true;
                            } else {
                                // an on-demand request that was still unanswered at the previous question
                                let k = reqs.iter().enumerate().position(|(k, (inv, rep, _, src))| {
                                    !used_req[k] && *src == Src::OnDemand && *inv < i && rep.map(|r| r > prev_question_idx).unwrap_or(true)
                                });
                                match k {
                                    Some(k) => used_req[k] = true,
                                    None => m.viol(p, "R3", &site, "the reboot question was re-asked although neither its 30-minute timer fired nor an on-demand request arrived".to_string()),
                                }
                            }
                        }
                        prev_question_idx = i;
                    }
                }
                Kind::Event(EventRec::State(StateRec::Idle)) => {
                    expect = None;
                    armed.clear();
                }
                _ => {}
            }
        }
    }
    if m.sample.is_none() {
        if let Some(s) = m.sigs.first() {
            m.sample = Some(serde_json::json!({ "case": s }));
        }
    }
    m
}

fn check_arming(m: &mut MonOut, p: &str, site: &str, t: &TimingRec, armed: &[(u64, TimerArg, bool)], at: usize) {
    let n_until = armed.iter().filter(|a| a.1 == TimerArg::Until(t.time.clone())).count();
    let n_for = armed.iter().filter(|a| matches!(a.1, TimerArg::For(_))).count();
    if n_until != 1 {
        m.viol(p, "R1", site, format!("{n_until} timers armed for the time bound the policy answered at #{at}"));
    }
    let want_for = t.min_wait_ns.is_some() as usize;
    // when time bound and minimum wait coincide as values they are still different timer kinds
    if n_for != want_for {
        m.viol(p, "R1", site, format!("{n_for} minimum-wait timers armed, the policy's answer at #{at} has minimum wait {:?}", t.min_wait_ns));
    }
}
