//! C04 — announced states and result match what happened.
//! "What happened" is computed from environment observations and server ground truth only.

use crate::exec::RunOut;
use crate::hist::*;
use crate::mon::*;
use crate::seg::{self, Check, Exchange};
use serde_json::Value;

pub struct Truth {
    /// Some(true): authenticated (or CUP off), 2xx, grammatical. Some(false): not usable. None: unknown.
    pub usable: Option<bool>,
    pub doc: Option<Value>,
    pub why: String,
    /// expected error class of the result when not usable
    pub err: Option<ErrRec>,
}

/// Ground truth of the update-check part of a check, from its update-check exchanges.
pub fn uc_truth(c: &Check, xs: &[Exchange]) -> Truth {
    let ucs: Vec<&Exchange> = xs.iter().filter(|x| x.kind == ReqKind::UpdateCheck).collect();
    let last = match ucs.last() {
        None => {
            return Truth { usable: Some(false), doc: None, why: "no request sent".into(), err: None };
        }
        Some(l) => *l,
    };
    match &last.result {
        None => Truth { usable: None, doc: None, why: "in flight".into(), err: None },
        Some(Err(_)) => Truth { usable: Some(false), doc: None, why: "transport".into(), err: Some(ErrRec::HttpTransport) },
        Some(Ok(r)) => {
            if c.cup && r.authentic != Some(true) {
                return Truth { usable: Some(false), doc: None, why: "unauthenticated".into(), err: Some(ErrRec::CupValidation) };
            }
            if !seg::is_2xx(r.status) {
                return Truth {
                    usable: Some(false),
                    doc: None,
                    why: format!("status {}", r.status),
                    err: Some(ErrRec::HttpStatus(r.status)),
                };
            }
            match r.grammatical {
                Some(true) => Truth { usable: Some(true), doc: r.doc.clone(), why: "ok".into(), err: None },
                Some(false) => Truth { usable: Some(false), doc: None, why: "ungrammatical".into(), err: Some(ErrRec::ResponseParser) },
                None => {
                    // tampered / arbitrary bytes: whether they still form a response document is not
                    // known in general, but bytes that are not JSON at all (after the optional
                    // anti-XSSI prefix) certainly are not one
                    let b = r.body.strip_prefix(b")]}'\n").unwrap_or(&r.body);
                    let json = serde_json::from_slice::<serde_json::Value>(b).is_ok() || serde_json::from_str::<serde_json::Value>(&String::from_utf8_lossy(b)).is_ok();
                    if json {
                        Truth { usable: None, doc: None, why: "unknown body".into(), err: None }
                    } else {
                        Truth { usable: Some(false), doc: None, why: "not JSON".into(), err: Some(ErrRec::ResponseParser) }
                    }
                }
            }
        }
    }
}

pub fn monitor(out: &RunOut) -> MonOut {
    let mut m = MonOut::default();
    let h = &out.hist;
    for l in seg::lives(h) {
        if !l.started {
            continue;
        }
        let (checks, waits) = seg::checks(h, &l);
        for c in &checks {
            if !c.complete {
                continue;
            }
            check_one(h, c, &mut m);
        }
        // R10: a reboot wait that ends without the device going down is followed by Idle before
        // anything else begins
        for w in &waits {
            m.count("R10.reboot_waits");
            if !w.complete && checks.iter().any(|c| c.start > w.start) {
                m.viol("C04", "R10", format!("L{}@{}", w.life, w.start), "a check that led to WaitingForReboot was never followed by Idle although the machine went on to its next check".to_string());
            }
        }
    }
    m
}

fn check_one(h: &History, c: &Check, m: &mut MonOut) {
    let p = "C04";
    let site = format!("L{}@{}", c.life, c.start);
    let xs = seg::exchanges(h, c.start, c.end);
    m.count("checks");
    let states: Vec<StateRec> = c
        .events
        .iter()
        .filter_map(|(_, e)| if let EventRec::State(s) = e { Some(s.clone()) } else { None })
        .collect();
    // R1: first announced event
    let src = c.params.as_ref().map(|p| p.source).unwrap_or(Src::Scheduled);
    match c.events.first() {
        Some((_, EventRec::State(StateRec::CheckingForUpdates(s)))) if *s == src => {}
        other => m.viol(p, "R1", &site, format!("first event of the check is {:?}, expected CheckingForUpdates({:?})", other.map(|x| &x.1), src)),
    }
    // R2: last three
    let n = c.events.len();
    let tail_ok = n >= 3
        && matches!(c.events[n - 3].1, EventRec::Schedule(_))
        && matches!(c.events[n - 2].1, EventRec::Proto(_))
        && matches!(c.events[n - 1].1, EventRec::Result(_));
    if !tail_ok {
        m.viol(p, "R2", &site, "check does not end with ScheduleChange, ProtocolStateChange, UpdateCheckResult".to_string());
    }
    let nresults = c.events.iter().filter(|(_, e)| matches!(e, EventRec::Result(_))).count();
    if nresults != 1 {
        m.viol(p, "R2", &site, format!("{nresults} results in one check"));
    }
    let result = c.result.clone().unwrap();

    let truth = uc_truth(c, &xs);
    let announced: Vec<&Value> = c
        .events
        .iter()
        .filter_map(|(_, e)| if let EventRec::ServerResponse(v) = e { Some(v) } else { None })
        .collect();

    // environment-side facts
    let mut plan: Option<(Result<String, ()>, Vec<String>)> = None;
    let mut can_start: Option<UpdateDecisionRec> = None;
    let mut install_done: Option<Vec<InstallRes>> = None;
    let mut reboot_needed: Option<bool> = None;
    for i in c.start..c.end {
        match &h[i].kind {
            Kind::Installer(InstallerRec::CreatePlan { result, offered, .. }) => plan = Some((result.clone(), offered.clone())),
            Kind::Policy(PolicyRec::CanStart { answer, .. }) => can_start = Some(answer.clone()),
            Kind::Installer(InstallerRec::InstallDone { results, .. }) => install_done = Some(results.clone()),
            Kind::Policy(PolicyRec::RebootNeeded { answer, .. }) => reboot_needed = Some(*answer),
            _ => {}
        }
    }

    let mut sig = format!("{}|", truth.why);
    // ---- expected path
    let mut exp_states: Option<Vec<StateRec>> = None;
    let checking = StateRec::CheckingForUpdates(src);
    match truth.usable {
        Some(false) => {
            m.count("R3.no_usable_response");
            exp_states = Some(vec![checking.clone(), StateRec::ErrorCheckingForUpdate]);
            if !announced.is_empty() {
                m.viol(p, "R8", &site, format!("server response announced although {}", truth.why));
            }
            match (&result, &truth.err) {
                (Err(e), Some(exp)) => {
                    if e != exp {
                        m.viol(p, "R3", &site, format!("result error {:?}, expected {:?} ({})", e, exp, truth.why));
                    }
                }
                (Err(e), None) => {
                    // request construction failure: any of the construction classes
                    if !matches!(e, ErrRec::Json | ErrRec::HttpBuilder | ErrRec::CupDecoration) {
                        m.viol(p, "R3", &site, format!("no request was sent but result is {:?}", e));
                    }
                }
                (Ok(_), _) => m.viol(p, "R3", &site, format!("result Ok although {}", truth.why)),
            }
        }
        Some(true) => {
            let doc = truth.doc.clone().unwrap();
            m.count("R8.usable_response");
            // R8: announced exactly once and equal to the document
            if announced.len() != 1 {
                m.viol(p, "R8", &site, format!("{} server responses announced for a usable response", announced.len()));
            } else if let Some(exp) = expected_announce(&doc) {
                if canon(announced[0]) != canon(&exp) {
                    m.viol(p, "R8", &site, format!("announced response differs from the document: got {} expected {}", canon(announced[0]), canon(&exp)));
                }
            }
            let offered = offered_apps(&doc);
            let apps = doc_apps(&doc);
            let days = doc_elapsed_days(&doc);
            // expected per-app actions
            let mut exp_actions: Vec<Vec<ActionRec>> = vec![]; // alternatives per app
            let mut exp_err: Option<ErrRec> = None;
            if offered.is_empty() {
                m.count("R4.no_update");
                sig.push_str("noupdate");
                exp_states = Some(vec![checking.clone(), StateRec::NoUpdateAvailable]);
                for _ in &apps {
                    exp_actions.push(vec![ActionRec::NoUpdate]);
                }
                if plan.is_some() {
                    m.viol(p, "R6", &site, "install plan attempted although no update was offered".to_string());
                }
            } else {
                match &plan {
                    None => m.viol(p, "R6", &site, "update offered but no install plan was attempted".to_string()),
                    Some((Err(()), _)) => {
                        m.count("R7.plan_failed");
                        sig.push_str("planfail");
                        exp_states = Some(vec![checking.clone(), StateRec::InstallingUpdate, StateRec::InstallationError]);
                        exp_err = Some(ErrRec::InstallPlan);
                    }
                    Some((Ok(_), plan_offered)) => {
                        if *plan_offered != offered {
                            m.viol(p, "R9", &site, format!("installer saw offered apps {:?}, document offers {:?}", plan_offered, offered));
                        }
                        match &can_start {
                            None => m.viol(p, "R5", &site, "plan created but policy never asked".to_string()),
                            Some(UpdateDecisionRec::Deferred) => {
                                m.count("R5.deferred");
                                sig.push_str("deferred");
                                exp_states = Some(vec![checking.clone(), StateRec::InstallationDeferredByPolicy]);
                                for a in &apps {
                                    let id = str_field(a, "appid").unwrap_or_default();
                                    if offered.contains(&id) {
                                        exp_actions.push(vec![ActionRec::DeferredByPolicy]);
                                    } else {
                                        exp_actions.push(vec![ActionRec::NoUpdate, ActionRec::DeferredByPolicy]);
                                    }
                                }
                            }
                            Some(UpdateDecisionRec::Denied) => {
                                m.count("R5.denied");
                                sig.push_str("denied");
                                exp_states = Some(vec![checking.clone()]);
                                for a in &apps {
                                    let id = str_field(a, "appid").unwrap_or_default();
                                    if offered.contains(&id) {
                                        exp_actions.push(vec![ActionRec::DeniedByPolicy]);
                                    } else {
                                        exp_actions.push(vec![ActionRec::NoUpdate, ActionRec::DeniedByPolicy]);
                                    }
                                }
                            }
                            Some(UpdateDecisionRec::Ok) => match &install_done {
                                None => m.viol(p, "R6", &site, "policy approved but no install ran".to_string()),
                                Some(results) => {
                                    m.count("R6.installed");
                                    let nfailed = results.iter().filter(|r| **r == InstallRes::Failed).count();
                                    sig.push_str(&format!("install:{:?}", results));
                                    let mut st = vec![checking.clone(), StateRec::InstallingUpdate];
                                    if nfailed > 0 {
                                        m.count("R7.app_failed");
                                        st.push(StateRec::InstallationError);
                                    }
                                    exp_states = Some(st);
                                    let mut k = 0;
                                    for a in &apps {
                                        let st = a.get("updatecheck").and_then(|u| u.get("status")).and_then(|s| s.as_str());
                                        if st == Some("ok") {
                                            let r = results.get(k).cloned();
                                            k += 1;
                                            exp_actions.push(vec![match r {
                                                Some(InstallRes::Installed) => ActionRec::Updated,
                                                Some(InstallRes::Deferred) => ActionRec::DeferredByPolicy,
                                                Some(InstallRes::Failed) => ActionRec::InstallPlanExecutionError,
                                                None => ActionRec::NoUpdate,
                                            }]);
                                        } else {
                                            exp_actions.push(vec![ActionRec::NoUpdate]);
                                        }
                                    }
                                    // R7: one installer-error event per failed app, before InstallationError
                                    let nerr = c.events.iter().filter(|(_, e)| matches!(e, EventRec::InstallerError(_))).count();
                                    if nerr != nfailed {
                                        m.viol(p, "R7", &site, format!("{nerr} installer-error events for {nfailed} failed apps"));
                                    }
                                    if nfailed > 0 {
                                        let pos_err_state = c.events.iter().position(|(_, e)| matches!(e, EventRec::State(StateRec::InstallationError)));
                                        let last_ie = c.events.iter().rposition(|(_, e)| matches!(e, EventRec::InstallerError(_)));
                                        if let (Some(a), Some(b)) = (pos_err_state, last_ie) {
                                            if b > a {
                                                m.viol(p, "R7", &site, "installer-error event after InstallationError".to_string());
                                            }
                                        }
                                    }
                                }
                            },
                        }
                    }
                }
            }
            // R9: result
            match (&result, &exp_err) {
                (Err(e), Some(exp)) => {
                    if e != exp {
                        m.viol(p, "R9", &site, format!("result error {:?}, expected {:?}", e, exp));
                    }
                }
                (Ok(_), Some(exp)) => m.viol(p, "R9", &site, format!("result Ok, expected error {:?}", exp)),
                (Err(e), None) => {
                    if !exp_actions.is_empty() || offered.is_empty() {
                        m.viol(p, "R9", &site, format!("result error {:?} although a usable response was processed", e));
                    }
                }
                (Ok(list), None) => {
                    if !exp_actions.is_empty() || apps.is_empty() {
                        m.count("R9.result_alignment");
                        if list.len() != apps.len() {
                            m.viol(p, "R9", &site, format!("result lists {} apps, response has {}", list.len(), apps.len()));
                        } else {
                            for (i, (got, a)) in list.iter().zip(apps.iter()).enumerate() {
                                let id = str_field(a, "appid").unwrap_or_default();
                                if got.app_id != id {
                                    m.viol(p, "R9", &site, format!("result app #{i} is {:?}, response has {:?}", got.app_id, id));
                                    continue;
                                }
                                if got.cohort != str_field(a, "cohort")
                                    || got.cohorthint != str_field(a, "cohorthint")
                                    || got.cohortname != str_field(a, "cohortname")
                                    || got.uc != days
                                {
                                    m.viol(p, "R9", &site, format!("result app {id}: cohort/user-counting differ from the response"));
                                }
                                if let Some(alts) = exp_actions.get(i) {
                                    if !alts.contains(&got.action) {
                                        m.viol(p, "R9", &site, format!("result app {id}: action {:?}, expected one of {:?}", got.action, alts));
                                    }
                                }
                            }
                        }
                    }
                }
            }
        }
        None => {
            m.count("unknown_truth");
            // unknown body: the announced response, if any, must still be a faithful parse of the body
        }
    }
    // states: exactly the expected path (R3-R7 "iff" direction: nothing else announced)
    if let Some(exp) = exp_states {
        if states != exp {
            let rule = if states.contains(&StateRec::InstallationDeferredByPolicy) != exp.contains(&StateRec::InstallationDeferredByPolicy) {
                "R5"
            } else if states.contains(&StateRec::ErrorCheckingForUpdate) != exp.contains(&StateRec::ErrorCheckingForUpdate) {
                "R3"
            } else if states.contains(&StateRec::NoUpdateAvailable) != exp.contains(&StateRec::NoUpdateAvailable) {
                "R4"
            } else if states.contains(&StateRec::InstallingUpdate) != exp.contains(&StateRec::InstallingUpdate) {
                "R6"
            } else {
                "R7"
            };
            m.viol(p, rule, &site, format!("announced states {:?}, expected {:?} ({})", states, exp, sig));
        }
    }
    // R10: what follows the check in continuous operation
    if c.mode_start {
        let no_failed = install_done.as_ref().map(|r| r.iter().all(|x| *x != InstallRes::Failed)).unwrap_or(false);
        let expect_wfr = no_failed && reboot_needed == Some(true);
        m.count("R10.after_check");
        if expect_wfr {
            m.count("R10.reboot_pending");
        }
        match c.ended.as_str() {
            "waiting_for_reboot" if !expect_wfr => m.viol(p, "R10", &site, "WaitingForReboot announced although no reboot is pending".to_string()),
            "idle" if expect_wfr => m.viol(p, "R10", &site, "Idle announced directly although a reboot is pending".to_string()),
            _ => {}
        }
    }
    m.sig(sig);
    if m.sample.is_none() {
        m.sample = Some(serde_json::json!({
            "check_at": site,
            "truth": truth.why,
            "states": format!("{:?}", states),
            "result": format!("{:?}", result),
        }));
    }
}
