//! C10 — every update outcome is reported to Omaha exactly once.

use super::c04::uc_truth;
use super::c15::four_part;
use super::common::*;
use crate::exec::RunOut;
use crate::hist::*;
use crate::mon::*;
use crate::seg::{self, Exchange};
use serde_json::Value;

#[derive(Clone, Debug, PartialEq)]
struct ExpEvent {
    etype: u64,
    result: u64,
    errorcode: Option<i64>,
    next: Option<String>,
    download_time: bool,
}

#[derive(Clone, Debug)]
struct ExpReport {
    what: &'static str,
    apps: Vec<(String, ExpEvent)>,
    per_result: bool,
}

pub fn monitor(out: &RunOut) -> MonOut {
    let mut m = MonOut::default();
    let p = "C10";
    let h = &out.hist;
    for l in seg::lives(h) {
        if !l.started {
            continue;
        }
        let (checks, _) = seg::checks(h, &l);
        let empty_disk = matches!(&h[l.start + 1].kind, Kind::DiskCommitted { map } if map.is_empty());
        for c in &checks {
            if !c.complete {
                continue;
            }
            let site = format!("L{}@{}", c.life, c.start);
            let xs = seg::exchanges(h, c.start, c.end);
            let truth = uc_truth(c, &xs);
            // app set as the machine held it when the check began
            let app_ids: Vec<String> = if c.mode_start {
                match &h[c.start].kind {
                    Kind::Policy(PolicyRec::CheckAllowed { apps, .. }) => apps.iter().map(|a| a.id.clone()).collect(),
                    _ => continue,
                }
            } else if empty_disk || true {
                l.presets.iter().map(|a| a.id.clone()).collect()
            } else {
                continue;
            };
            // the app's version when the check began: the configured one, or what the embedder has set
            // in the shared app set since (a change made while the check is under way does not count)
            let version_of = |id: &str| -> String {
                // (the check takes its copy of the app set at the first read after it began)
                let snap = (c.start..c.end).find(|j| matches!(h[*j].kind, Kind::AppSetRead)).unwrap_or(c.start);
                let bumped = (l.start..snap).rev().find_map(|j| match &h[j].kind {
                    Kind::NeighbourMutate { app, version: Some(v), .. } if app == id => Some(four_part(v)),
                    _ => None,
                });
                bumped.unwrap_or_else(|| l.presets.iter().position(|a| a.id == id).and_then(|i| l.versions.get(i)).map(|v| four_part(v)).unwrap_or_default())
            };
            // environment facts
            let mut plan: Option<Result<String, ()>> = None;
            let mut can_start: Option<UpdateDecisionRec> = None;
            let mut done: Option<Vec<InstallRes>> = None;
            for i in c.start..c.end {
                match &h[i].kind {
                    Kind::Installer(InstallerRec::CreatePlan { result, .. }) => plan = Some(result.clone()),
                    Kind::Policy(PolicyRec::CanStart { answer, .. }) => can_start = Some(answer.clone()),
                    Kind::Installer(InstallerRec::InstallDone { results, .. }) => done = Some(results.clone()),
                    _ => {}
                }
            }
            // ---- the path's prescription
            let mut exp: Vec<ExpReport> = vec![];
            let mut path = "none";
            match truth.usable {
                None => continue,
                Some(false) => {
                    if truth.err == Some(ErrRec::ResponseParser) {
                        path = "parse_error";
                        let ev = ExpEvent { etype: 3, result: 0, errorcode: Some(0), next: None, download_time: false };
                        exp.push(ExpReport { what: "parse error", apps: app_ids.iter().map(|id| (id.clone(), ev.clone())).collect(), per_result: false });
                    }
                }
                Some(true) => {
                    let doc = truth.doc.clone().unwrap();
                    let offered = offered_apps(&doc);
                    let apps = doc_apps(&doc);
                    let next_of = |id: &str| -> Option<String> { apps.iter().find(|a| str_field(a, "appid").as_deref() == Some(id)).and_then(manifest_version) };
                    let known_offered: Vec<String> = app_ids.iter().filter(|id| offered.contains(id)).cloned().collect();
                    if !offered.is_empty() {
                        let single = |what: &'static str, etype: u64, result: u64, errorcode: Option<i64>| ExpReport {
                            what,
                            apps: known_offered.iter().map(|id| (id.clone(), ExpEvent { etype, result, errorcode, next: next_of(id), download_time: false })).collect(),
                            per_result: false,
                        };
                        match (&plan, &can_start, &done) {
                            (Some(Err(())), _, _) => {
                                path = "plan_error";
                                exp.push(single("construct-plan error", 3, 0, Some(1)));
                            }
                            (Some(Ok(_)), Some(UpdateDecisionRec::Deferred), _) => {
                                path = "deferred";
                                exp.push(single("deferred by policy", 3, 9, None));
                            }
                            (Some(Ok(_)), Some(UpdateDecisionRec::Denied), _) => {
                                path = "denied";
                                exp.push(single("denied by policy", 3, 0, Some(3)));
                            }
                            (Some(Ok(_)), Some(UpdateDecisionRec::Ok), Some(results)) => {
                                path = "install";
                                exp.push(single("download started", 13, 1, None));
                                // per-app results, in response order, for known apps
                                let mut per = vec![];
                                let mut installed = vec![];
                                for (id, r) in offered.iter().zip(results.iter()) {
                                    if !app_ids.contains(id) {
                                        continue;
                                    }
                                    let (etype, result, errorcode) = match r {
                                        InstallRes::Installed => (14, 1, None),
                                        InstallRes::Deferred => (3, 9, None),
                                        InstallRes::Failed => (3, 0, Some(2)),
                                    };
                                    per.push((id.clone(), ExpEvent { etype, result, errorcode, next: next_of(id), download_time: true }));
                                    if *r == InstallRes::Installed {
                                        installed.push((id.clone(), ExpEvent { etype: 3, result: 1, errorcode: None, next: next_of(id), download_time: true }));
                                    }
                                }
                                exp.push(ExpReport { what: "per-app results", apps: per, per_result: true });
                                if !installed.is_empty() {
                                    exp.push(ExpReport { what: "update complete", apps: installed, per_result: false });
                                }
                            }
                            _ => continue,
                        }
                    }
                }
            }
            m.count("checks");
            m.sig(format!("{path}|{:?}|{:?}", exp.iter().map(|e| e.apps.len()).collect::<Vec<_>>(), done));
            // ---- what was sent
            let reports: Vec<&Exchange> = xs.iter().filter(|x| matches!(x.kind, ReqKind::Event | ReqKind::Other)).collect();
            let mut ri = 0;
            for e in &exp {
                m.count("R1.reports_expected");
                let got = reports.get(ri);
                if e.apps.is_empty() {
                    // nothing to report for known apps: an empty report may be sent or not
                    if let Some(g) = got {
                        if g.apps().is_empty() {
                            ri += 1;
                        }
                    }
                    continue;
                }
                let g = match got {
                    Some(g) => *g,
                    None => {
                        m.viol(p, "R1", &site, format!("path {path}: the {} report was not sent", e.what));
                        continue;
                    }
                };
                ri += 1;
                let gapps = g.apps();
                let gids: Vec<String> = gapps.iter().filter_map(|a| str_field(a, "appid")).collect();
                let eids: Vec<String> = e.apps.iter().map(|a| a.0.clone()).collect();
                if gids != eids {
                    let rule = if gids.iter().any(|i| !app_ids.contains(i)) { "R5" } else { "R1" };
                    m.viol(p, rule, &site, format!("path {path}: the {} report lists apps {:?}, expected {:?}", e.what, gids, eids));
                    continue;
                }
                for (ga, (id, ee)) in gapps.iter().zip(e.apps.iter()) {
                    m.count("R2.events_checked");
                    let evs = ga.get("event").and_then(|x| x.as_array()).cloned().unwrap_or_default();
                    if evs.len() != 1 {
                        m.viol(p, "R1", &site, format!("{}: app {id} carries {} events", e.what, evs.len()));
                        continue;
                    }
                    let ev = &evs[0];
                    let got_ev = ExpEvent {
                        etype: ev["eventtype"].as_u64().unwrap_or(999),
                        result: ev["eventresult"].as_u64().unwrap_or(999),
                        errorcode: ev.get("errorcode").and_then(|x| x.as_i64()),
                        next: ev.get("nextversion").and_then(|x| x.as_str()).map(|s| s.to_string()),
                        download_time: ev.get("download_time_ms").is_some(),
                    };
                    if got_ev != *ee {
                        m.viol(p, "R2", &site, format!("{}: app {id} event {:?}, expected {:?}", e.what, got_ev, ee));
                    }
                    let pv = ev.get("previousversion").and_then(|x| x.as_str()).unwrap_or("");
                    if pv != version_of(id) {
                        m.viol(p, "R2", &site, format!("{}: app {id} previousversion {pv:?}, the app's version is {}", e.what, version_of(id)));
                    }
                }
                // R3: same session, fresh request id
                let ucs: Vec<&Exchange> = xs.iter().filter(|x| x.kind == ReqKind::UpdateCheck).collect();
                // (every attempt of the update check, in particular the one that was answered)
                for (k, u) in ucs.iter().enumerate() {
                    if g.session_id() != u.session_id() {
                        m.viol(p, "R3", &site, format!("the {} report does not carry the session id of update-check attempt {} of {}", e.what, k + 1, ucs.len()));
                        break;
                    }
                }
                if ucs.len() > 1 {
                    m.count("R3.reports_after_a_retried_check");
                }
                // R4: delivery outcome accounting
                let delivered_ok = matches!(g.delivered(), Some(r) if seg::accepted_by_cup(c.cup, r) && seg::is_2xx(r.status));
                let lo = g.deliver_idx.unwrap_or(g.send_idx);
                let hi = reports.get(ri).map(|n| n.send_idx).unwrap_or(c.end);
                let lost: Vec<(u8, u8, Option<i32>)> = (lo..hi)
                    .filter_map(|i| if let Kind::Metric(MetricRec::OmahaEventLost { etype, result, errorcode }) = &h[i].kind { Some((*etype, *result, *errorcode)) } else { None })
                    .collect();
                if g.result.is_some() {
                    m.count("R4.report_deliveries");
                    if delivered_ok {
                        if !lost.is_empty() {
                            m.viol(p, "R4", &site, format!("the {} report was delivered but {} lost-event metrics were recorded", e.what, lost.len()));
                        }
                    } else {
                        m.count("R4.undeliverable_reports");
                        let n_events = e.apps.len();
                        let ok_count = if e.per_result { lost.len() == n_events } else { lost.len() == 1 || lost.len() == n_events };
                        if !ok_count {
                            m.viol(p, "R4", &site, format!("the {} report ({} events) could not be delivered; {} lost-event metrics recorded", e.what, n_events, lost.len()));
                        }
                        for (lt, lr, le) in &lost {
                            if !e.apps.iter().any(|(_, ee)| ee.etype == *lt as u64 && ee.result == *lr as u64 && ee.errorcode == le.map(|x| x as i64)) {
                                m.viol(p, "R4", &site, format!("lost-event metric ({lt},{lr},{le:?}) does not match any event of the {} report", e.what));
                            }
                        }
                        let me = body_minus_requestid(g);
                        if xs.iter().any(|y| y.send_idx > g.send_idx && body_minus_requestid(y) == me) {
                            m.viol(p, "R4", &site, format!("the {} report was re-sent", e.what));
                        }
                    }
                }
            }
            if ri < reports.len() {
                let extra: Vec<Vec<String>> = reports[ri..].iter().map(|g| g.apps().iter().filter_map(|a| str_field(a, "appid")).collect()).collect();
                m.viol(p, "R1", &site, format!("path {path}: {} event reports beyond the prescription: apps {:?}", reports.len() - ri, extra));
            }
            if m.sample.is_none() && path == "install" {
                let bodies: Vec<Value> = reports.iter().map(|g| Value::Array(g.apps())).collect();
                m.sample = Some(serde_json::json!({"path": path, "reports": bodies}));
            }
        }
    }
    m
}
