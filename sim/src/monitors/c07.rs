//! C07 — server-dictated poll interval (X-Retry-After) is honoured.
//! C02.R2 is evaluated by the same model (an unauthenticated response leaves it unchanged).

use super::common::*;
use crate::exec::RunOut;
use crate::hist::*;
use crate::mon::*;
use crate::seg;

pub fn monitor(out: &RunOut) -> MonOut {
    run(out, "C07")
}

/// `prop` = "C07": all rules; "C02": only the steps caused by unauthenticated responses.
pub fn run(out: &RunOut, prop: &str) -> MonOut {
    let mut m = MonOut::default();
    let h = &out.hist;
    let mut last_probe: Option<Option<u128>> = None;
    let lives = seg::lives(h);
    for (li, l) in lives.iter().enumerate() {
        // model: set of admissible values (one element except where the statement is open)
        let mut model: Option<Vec<Option<u128>>> = None;
        let mut unknown_since_unauth = false; // which kind of step last touched the model
        let mut pending_change: Option<(usize, Vec<Option<u128>>)> = None; // (deliver idx, new) awaiting announce+commit
        let mut announced = false;
        let mut committed = false;
        let mut first_policy_seen = false;
        let xs = seg::exchanges(h, l.start, l.end);
        for i in l.start..l.end {
            let r = &h[i];
            let site = format!("L{}@{}", l.life, i);
            match &r.kind {
                Kind::Policy(pr) => {
                    let proto = match pr {
                        PolicyRec::ComputeNext { proto, .. } | PolicyRec::CheckAllowed { proto, .. } => Some(proto),
                        _ => None,
                    };
                    if let Some(proto) = proto {
                        if !first_policy_seen {
                            first_policy_seen = true;
                            if model.is_none() {
                                // R4: a restarted machine starts from the stored value
                                if li > 0 && prop == "C07" {
                                    if let Some(lp) = &last_probe {
                                        m.count("R4.restart");
                                        if *lp != proto.poll_ns {
                                            m.viol(prop, "R4", &site, format!("after restart the policy sees poll interval {:?}, the last committed state presents {:?}", proto.poll_ns, lp));
                                        }
                                    }
                                }
                                model = Some(vec![proto.poll_ns]);
                            }
                        }
                        if let Some(md) = &model {
                            m.count("R1.policy_arg");
                            if !md.contains(&proto.poll_ns) {
                                let rule = if unknown_since_unauth { "R2" } else { "R1" };
                                if prop == "C07" || unknown_since_unauth {
                                    m.viol(prop, rule, &site, format!("policy sees poll interval {:?}, expected {:?}", proto.poll_ns, md));
                                }
                                model = Some(vec![proto.poll_ns]);
                            } else if md.len() > 1 {
                                model = Some(vec![proto.poll_ns]);
                            }
                        }
                    }
                    if pending_change.is_some() && prop == "C07" {
                        check_pending(&mut m, prop, &mut pending_change, announced, committed, &site);
                    }
                }
                Kind::Event(EventRec::Proto(pv)) => {
                    if let Some(md) = &model {
                        m.count("R1.announced");
                        if !md.contains(&pv.poll_ns) {
                            let rule = if unknown_since_unauth { "R2" } else { "R1" };
                            if prop == "C07" || unknown_since_unauth {
                                m.viol(prop, rule, &site, format!("announced poll interval {:?}, expected {:?}", pv.poll_ns, md));
                            }
                            model = Some(vec![pv.poll_ns]);
                        } else if md.len() > 1 {
                            model = Some(vec![pv.poll_ns]);
                        }
                    }
                    if pending_change.is_some() {
                        announced = true;
                    }
                }
                Kind::Disk { op: DiskOp::Commit, .. } => {
                    if pending_change.is_some() {
                        committed = true;
                    }
                }
                Kind::Probe { proto, .. } => {
                    last_probe = Some(proto.poll_ns);
                    if let (Some((_, newv)), true) = (&pending_change, committed) {
                        // R1 (persisted): the committed state presents the new value
                        if prop == "C07" {
                            m.count("R1.persisted");
                            if !newv.contains(&proto.poll_ns) {
                                m.viol(prop, "R1", &site, format!("committed state presents poll interval {:?} after a response dictating {:?}", proto.poll_ns, newv));
                            }
                        }
                    }
                }
                Kind::HttpDeliver { id, result } => {
                    if pending_change.is_some() && prop == "C07" {
                        check_pending(&mut m, prop, &mut pending_change, announced, committed, &site);
                    }
                    let x = xs.iter().find(|x| x.id == *id);
                    if let (Some(md), Ok(resp), Some(_x)) = (&model, result, x) {
                        if seg::accepted_by_cup(l.cup, resp) {
                            let newv = retry_after_readings(resp);
                            m.count("R1.responses_processed");
                            m.sig(format!("{:?}->{:?}|{}|{:?}", md, newv, resp.status, _x.kind));
                            unknown_since_unauth = false;
                            // a change is certain only if no admissible reading keeps the value
                            if !md.iter().any(|v| newv.contains(v)) {
                                pending_change = Some((i, newv.clone()));
                                announced = false;
                                committed = false;
                            }
                            model = Some(newv);
                        } else {
                            // R2: no response the client may act on
                            m.count("R2.unauthenticated");
                            unknown_since_unauth = true;
                            if prop == "C02" {
                                m.sig(format!("unauth|{}|{:?}|{:?}", resp.tamper.split('@').next().unwrap_or(""), _x.kind, seg::header(&resp.headers, "x-retry-after").len()));
                            }
                        }
                    } else if let Err(_) = result {
                        m.count("R2.no_response");
                    }
                }
                Kind::HttpSend { .. } | Kind::TimerArm { .. } | Kind::Installer(_) | Kind::Metric(_) => {
                    if pending_change.is_some() && prop == "C07" {
                        check_pending(&mut m, prop, &mut pending_change, announced, committed, &site);
                    }
                }
                _ => {}
            }
        }
    }
    if m.sample.is_none() {
        if let Some(s) = m.sigs.first() {
            m.sample = Some(serde_json::json!({ "transition": s }));
        }
    }
    m
}

fn check_pending(
    m: &mut MonOut,
    prop: &str,
    pending: &mut Option<(usize, Vec<Option<u128>>)>,
    announced: bool,
    committed: bool,
    site: &str,
) {
    if let Some((at, newv)) = pending.take() {
        m.count("R3.changes");
        if !announced {
            m.viol(prop, "R3", site, format!("poll interval changed to {:?} by the response at #{at} but no ProtocolStateChange was announced before the flow continued", newv));
        }
        if !committed {
            m.viol(prop, "R3", site, format!("poll interval changed to {:?} by the response at #{at} but storage was not committed before the flow continued", newv));
        }
    }
}
