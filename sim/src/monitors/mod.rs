pub mod c02;
pub mod c03;
pub mod c04;
pub mod c06;
pub mod c07;
pub mod common;
pub mod c08;
pub mod c09;
