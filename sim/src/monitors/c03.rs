//! C03 — every CUP request is freshly and faithfully decorated.

use crate::exec::RunOut;
use crate::hist::*;
use crate::mon::*;
use crate::refserver::{cup2key_of, parse_cup2key};
use crate::seg;
use std::collections::BTreeSet;

/// Independent string-level split of a URL into (scheme+authority, path, query).
fn split_url(u: &str) -> Option<(String, String, Option<String>)> {
    let (scheme, rest) = u.split_once("://")?;
    let (authority, pq) = match rest.find(|c| c == '/' || c == '?') {
        Some(i) => (&rest[..i], &rest[i..]),
        None => (rest, ""),
    };
    let (path, query) = match pq.split_once('?') {
        Some((p, q)) => (p.to_string(), Some(q.to_string())),
        None => (pq.to_string(), None),
    };
    let path = if path.is_empty() { "/".to_string() } else { path };
    Some((format!("{}://{}", scheme.to_ascii_lowercase(), authority.to_ascii_lowercase()), path, query))
}

pub fn monitor(out: &RunOut) -> MonOut {
    let mut m = MonOut::default();
    let p = "C03";
    let h = &out.hist;
    let mut nonces: BTreeSet<String> = BTreeSet::new();
    for l in seg::lives(h) {
        if !l.cup {
            continue;
        }
        let xs = seg::exchanges(h, l.start, l.end);
        let latest_id: Option<u64> = None;
        let _ = latest_id;
        for x in &xs {
            let site = format!("L{}@{}", l.life, x.send_idx);
            m.count("R1.requests");
            let cfgd = split_url(&l.service_url);
            let wire = split_url(&x.uri);
            match (cfgd, wire) {
                (Some((ca, cp, cq)), Some((wa, wp, wq))) => {
                    if ca != wa || cp != wp {
                        m.viol(p, "R1", &site, format!("wire URL {} does not keep scheme/authority/path of {}", x.uri, l.service_url));
                    }
                    let cpairs: Vec<&str> = cq.as_deref().map(|q| q.split('&').filter(|s| !s.is_empty()).collect()).unwrap_or_default();
                    let wpairs: Vec<&str> = wq.as_deref().map(|q| q.split('&').filter(|s| !s.is_empty()).collect()).unwrap_or_default();
                    let cups: Vec<&&str> = wpairs.iter().filter(|s| s.starts_with("cup2key=")).collect();
                    if cups.len() != 1 {
                        m.viol(p, "R1", &site, format!("{} cup2key parameters in {}", cups.len(), x.uri));
                    }
                    let others: Vec<&str> = wpairs.iter().filter(|s| !s.starts_with("cup2key=")).cloned().collect();
                    if others != cpairs {
                        m.viol(p, "R1", &site, format!("existing query of {} not kept intact in {}", l.service_url, x.uri));
                    }
                    m.sig(format!("url:{}|q{}|{:?}|life{}", l.service_url, cpairs.len(), x.kind, l.life.min(2)));
                }
                _ => m.viol(p, "R1", &site, format!("cannot split URL {} / {}", l.service_url, x.uri)),
            }
            match cup2key_of(&x.uri).as_deref().and_then(parse_cup2key) {
                Some((_id, nonce)) => {
                    if nonce.len() != 64 || !nonce.bytes().all(|b| b.is_ascii_hexdigit()) {
                        m.viol(p, "R1", &site, format!("nonce {:?} is not 64 hex digits", nonce));
                    }
                    m.count("R3.nonces");
                    if !nonces.insert(nonce.to_ascii_lowercase()) {
                        m.viol(p, "R3", &site, format!("nonce {nonce} used twice"));
                    }
                }
                None => m.viol(p, "R1", &site, format!("no well-formed cup2key in {}", x.uri)),
            }
        }
        // R2: key id is the handler's latest = the id every request of this life carries must be
        // one value, and (R4) the metadata handed to the installer equals the wire
        let ids: BTreeSet<u64> = xs.iter().filter_map(|x| cup2key_of(&x.uri).as_deref().and_then(parse_cup2key)).map(|(i, _)| i).collect();
        if !ids.is_empty() {
            m.count("R2.key_id");
        }
        if ids.iter().any(|i| *i != l.key_id) {
            m.viol(p, "R2", format!("L{}", l.life), format!("requests carry key ids {:?}, the configured latest key id is {}", ids, l.key_id));
        }
        for i in l.start..l.end {
            if let Kind::Installer(InstallerRec::CreatePlan { meta, .. }) = &h[i].kind {
                let site = format!("L{}@{}", l.life, i);
                m.count("R4.metadata");
                // the request this plan was created for: the last update-check exchange before i
                let x = xs.iter().filter(|x| x.kind == ReqKind::UpdateCheck && x.send_idx < i).last();
                match (meta, x) {
                    (Some(meta), Some(x)) => {
                        if meta.body_sha != x.body_sha || meta.body_len != x.body_len {
                            m.viol(p, "R4", &site, "retained request body differs from the bytes sent".to_string());
                        }
                        match cup2key_of(&x.uri).as_deref().and_then(parse_cup2key) {
                            Some((id, nonce)) => {
                                if id != meta.key_id || !nonce.eq_ignore_ascii_case(&meta.nonce_hex) {
                                    m.viol(p, "R4", &site, "retained key id / nonce differ from those in the wire URL".to_string());
                                }
                            }
                            None => {}
                        }
                    }
                    (None, _) => m.viol(p, "R4", &site, "no request metadata handed to the installer although CUP is configured".to_string()),
                    _ => {}
                }
            }
        }
        // R5: an untouched answer of the reference server (which hashes the wire bytes) is accepted
        for x in &xs {
            if let Some(r) = x.delivered() {
                if r.tamper == "none" && r.authentic == Some(true) && x.kind == ReqKind::UpdateCheck && seg::is_2xx(r.status) && r.grammatical == Some(true) {
                    m.count("R5.untouched_accepted");
                    let di = x.deliver_idx.unwrap();
                    // the flow must not end in a validation error for this exchange
                    let mut bad = false;
                    for j in di..l.end {
                        match &h[j].kind {
                            Kind::Event(EventRec::Result(Err(ErrRec::CupValidation))) => {
                                bad = true;
                                break;
                            }
                            Kind::Event(EventRec::Result(_)) | Kind::HttpSend { .. } => break,
                            _ => {}
                        }
                    }
                    if bad {
                        m.viol(p, "R5", format!("L{}@{}", l.life, di), "an untouched, correctly signed response was rejected".to_string());
                    }
                }
            }
        }
    }
    if m.sample.is_none() {
        if let Some(s) = m.sigs.first() {
            m.sample = Some(serde_json::json!({ "case": s, "distinct_nonces": nonces.len() }));
        }
    }
    m
}
