//! C13(b) — in the state machine: the producer never runs ahead of its consumer, progress is
//! delivered in order before the outcome, and no schedule deadlocks the flow.

use crate::exec::RunOut;
use crate::hist::*;
use crate::mon::*;
use crate::seg;

pub fn monitor(out: &RunOut) -> MonOut {
    let mut m = MonOut::default();
    let p = "C13";
    let h = &out.hist;
    if let Some(pi) = &out.panic {
        if pi.in_sut {
            m.viol(p, "R1", "panic", format!("panic: {} at {}", pi.msg, pi.location));
        }
    }
    for l in seg::lives(h) {
        if !l.started {
            continue;
        }
        if l.end_why == "stuck" {
            let gone = (l.start..l.end).any(|i| matches!(h[i].kind, Kind::StreamDrop | Kind::StreamEnd));
            if !gone {
                m.viol(p, "R3", format!("L{}", l.life), "nothing is runnable and nothing is pending but the stream has not ended: a wake-up was lost".to_string());
            }
        }
        if (l.start..l.end).any(|i| matches!(&h[i].kind, Kind::Note(n) if n == "spin")) {
            m.viol(p, "R3", format!("L{}", l.life), "the stream's task is woken over and over without progress".to_string());
        }
        let (checks, waits) = seg::checks(h, &l);
        for c in &checks {
            let site = format!("L{}@{}", c.life, c.start);
            m.count("checks");
            let ev_idx = |pred: &dyn Fn(&EventRec) -> bool| c.events.iter().find(|(_, e)| pred(e)).map(|(i, _)| *i);
            // the first request of the check comes after CheckingForUpdates was taken
            let first_send = (c.start..c.end).find(|i| matches!(h[*i].kind, Kind::HttpSend { .. }));
            let checking = ev_idx(&|e| matches!(e, EventRec::State(StateRec::CheckingForUpdates(_))));
            if let Some(s) = first_send {
                m.count("R2.first_request_after_checking_event");
                if checking.map(|c| c > s).unwrap_or(true) {
                    m.viol(p, "R2", &site, "the first request of the check was sent before the observer had taken CheckingForUpdates".to_string());
                }
            }
            // the closing events (final schedule, protocol state, result) are emitted back to back:
            // nothing is written to storage before the observer has taken the result
            if c.complete {
                let res = c.events.iter().find(|(_, e)| matches!(e, EventRec::Result(_))).map(|(i, _)| *i);
                let sched = res.and_then(|r| c.events.iter().filter(|(i, e)| *i < r && matches!(e, EventRec::Schedule(_))).map(|(i, _)| *i).last());
                if let (Some(a), Some(b)) = (sched, res) {
                    m.count("R2.closing_events");
                    if let Some(j) = (a..b).find(|j| matches!(h[*j].kind, Kind::Disk { .. })) {
                        m.viol(p, "R2", &site, format!("storage was touched (record #{j}) while the observer had not yet taken the check's closing events"));
                    }
                }
            }
            // installer start after InstallingUpdate was taken
            let perform = (c.start..c.end).find(|i| matches!(h[*i].kind, Kind::Installer(InstallerRec::PerformInstall { .. })));
            let installing = ev_idx(&|e| matches!(e, EventRec::State(StateRec::InstallingUpdate)));
            if let Some(pi) = perform {
                m.count("R2.install_after_installing_event");
                if installing.map(|e| e > pi).unwrap_or(true) {
                    m.viol(p, "R2", &site, "the installer was started before the observer had taken InstallingUpdate".to_string());
                }
                // progress: every reported value delivered, in order, before the outcome is announced
                let sent: Vec<u32> = (c.start..c.end).filter_map(|i| if let Kind::Installer(InstallerRec::ProgressSent { value }) = &h[i].kind { Some(*value) } else { None }).collect();
                let outcome_idx = c
                    .events
                    .iter()
                    .find(|(i, e)| *i > pi && matches!(e, EventRec::State(StateRec::InstallationError) | EventRec::Schedule(_) | EventRec::InstallerError(_)))
                    .map(|(i, _)| *i)
                    .unwrap_or(c.end);
                let got: Vec<u32> = c.events.iter().filter(|(i, _)| *i < outcome_idx).filter_map(|(_, e)| if let EventRec::Progress(v) = e { Some(*v) } else { None }).collect();
                // back-pressure on progress: the installer's k-th report returns only after the observer
                // has taken value k - code after an awaited report never runs ahead of the consumer
                // (reports that were cancelled or started in pairs are left out)
                {
                    let sent_idx: Vec<usize> = (c.start..c.end).filter(|i| matches!(h[*i].kind, Kind::Installer(InstallerRec::ProgressSent { .. }))).collect();
                    let ret_idx: Vec<usize> = (c.start..c.end).filter(|i| matches!(h[*i].kind, Kind::Installer(InstallerRec::ProgressReturned { .. }))).collect();
                    let taken_idx: Vec<usize> = c.events.iter().filter(|(_, e)| matches!(e, EventRec::Progress(_))).map(|(i, _)| *i).collect();
                    let plain = sent_idx.len() == ret_idx.len() && sent_idx.iter().zip(ret_idx.iter()).all(|(s, r)| s < r) && sent_idx.windows(2).zip(ret_idx.iter()).all(|(w, r)| *r < w[1]);
                    let cancelled = out.stats.get("embedder.progress_report_cancelled").copied().unwrap_or(0) > 0;
                    if plain && !cancelled {
                        // control requests under way (sent, answer not yet seen by the client): after
                        // answering one the machine polls the check once more before the observer gets
                        // its turn, and the installer is then one step ahead; reports that overlap such a
                        // request are left out
                        let mut open_reqs: Vec<(usize, usize)> = vec![];
                        for i in l.start..l.end {
                            if let Kind::CtlInvoke { client, req, .. } = &h[i].kind {
                                let end = (i..l.end)
                                    .find(|j| matches!(&h[*j].kind, Kind::CtlReply { client: c2, req: r2, .. } if c2 == client && r2 == req))
                                    .unwrap_or(l.end);
                                open_reqs.push((i, end));
                            }
                        }
                        for k in 0..ret_idx.len() {
                            if open_reqs.iter().any(|(a, b)| *a < ret_idx[k] && *b > sent_idx[k]) {
                                m.count("R2.progress_reports_beside_a_control_request");
                                continue;
                            }
                            m.count("R2.progress_reports_returned_after_taken");
                            if taken_idx.get(k).map(|t| *t > ret_idx[k]).unwrap_or(true) {
                                m.viol(p, "R2", &site, format!("progress report #{} returned to the installer before the observer had taken its value", k + 1));
                                break;
                            }
                        }
                    }
                }
                let done = (c.start..c.end).any(|i| matches!(h[i].kind, Kind::Installer(InstallerRec::InstallDone { .. })));
                if done && c.complete {
                    m.count("R1.progress_sequences");
                    m.sig(format!("progress{}", sent.len()));
                    if got != sent {
                        m.viol(p, "R1", &site, format!("progress values delivered before the outcome: {:?}, reported by the installer: {:?}", got, sent));
                    }
                }
            }
        }
        for w in &waits {
            // reboot-path calls after WaitingForReboot was taken: the segment starts at the event's receipt;
            // the question must not precede it
            let site = format!("L{}@{}", w.life, w.start);
            m.count("R2.reboot_after_waiting_event");
            // find the last InstallDone before the wait and any reboot question between it and the event
            let mut j = w.start;
            while j > l.start {
                j -= 1;
                match &h[j].kind {
                    Kind::Policy(PolicyRec::RebootAllowed { .. }) | Kind::Installer(InstallerRec::Reboot { .. }) => {
                        m.viol(p, "R2", &site, "the reboot path ran before the observer had taken WaitingForReboot".to_string());
                        break;
                    }
                    Kind::Event(EventRec::Result(_)) => break,
                    _ => {}
                }
            }
        }
        // events are received exactly once and in emission order: the tail of every complete check
        // (Schedule, Proto, Result) is C04's rule; here: no event after stream end
        if let Some(e) = (l.start..l.end).find(|i| matches!(h[*i].kind, Kind::StreamEnd)) {
            if (e..l.end).any(|i| matches!(h[i].kind, Kind::Event(_))) {
                m.viol(p, "R1", format!("L{}@{}", l.life, e), "an event was received after the stream ended".to_string());
            }
        }
    }
    if m.sample.is_none() {
        m.sample = Some(serde_json::json!({"records": h.len()}));
    }
    m
}
