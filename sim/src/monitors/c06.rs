//! C06 — retries are bounded, only for transient failures, and backed off.

use super::common::*;
use crate::exec::RunOut;
use crate::hist::*;
use crate::mon::*;
use crate::seg::{self, Check, Exchange};

/// Is the outcome of this attempt one after which a further attempt may be made?
fn retryable(cup: bool, x: &Exchange) -> Option<bool> {
    match &x.result {
        None => None,
        Some(Err(NetErr::User)) => Some(false),
        Some(Err(_)) => Some(true),
        Some(Ok(r)) => {
            if !seg::accepted_by_cup(cup, r) {
                Some(false)
            } else {
                Some(!seg::is_2xx(r.status))
            }
        }
    }
}

pub fn monitor(out: &RunOut) -> MonOut {
    let mut m = MonOut::default();
    let h = &out.hist;
    for l in seg::lives(h) {
        if !l.started {
            continue;
        }
        let (checks, waits) = seg::checks(h, &l);
        // poll interval in force at the start of each check: the value handed to the policy
        // when it allowed the check (start mode); for one-shot: known only on an empty disk.
        for c in &checks {
            if !c.complete {
                continue;
            }
            let initial: Option<Option<u128>> = if c.mode_start {
                match &h[c.start].kind {
                    Kind::Policy(PolicyRec::CheckAllowed { proto, .. }) => Some(proto.poll_ns),
                    _ => None,
                }
            } else {
                match &h[l.start + 1].kind {
                    Kind::DiskCommitted { map } if map.is_empty() => Some(None),
                    _ => None,
                }
            };
            check_one(h, c, initial, &mut m);
        }
        // R5 for pings: at most one ping request per ping-timer round
        for w in &waits {
            let mut pings_since_next = 0;
            for i in w.start..w.end {
                match &h[i].kind {
                    Kind::Policy(PolicyRec::ComputeNext { .. }) => pings_since_next = 0,
                    Kind::HttpSend { kind: ReqKind::Ping, .. } => {
                        pings_since_next += 1;
                        m.count("R5.pings");
                        if pings_since_next > 1 {
                            m.viol("C06", "R5", format!("L{}@{}", w.life, i), "a ping was sent more than once in one round".to_string());
                        }
                    }
                    _ => {}
                }
            }
        }
    }
    m
}

fn check_one(h: &History, c: &Check, initial_poll: Option<Option<u128>>, m: &mut MonOut) {
    let p = "C06";
    let site = format!("L{}@{}", c.life, c.start);
    let xs = seg::exchanges(h, c.start, c.end);
    let ucs: Vec<&Exchange> = xs.iter().filter(|x| x.kind == ReqKind::UpdateCheck).collect();
    let n = ucs.len();
    m.count("checks");
    // R1
    if n > 3 {
        m.viol(p, "R1", &site, format!("{n} update-check requests in one check"));
    }
    // poll interval in force after each attempt
    let mut poll: Option<Vec<Option<u128>>> = initial_poll.map(|v| vec![v]);
    let mut sig = String::new();
    for (k, x) in ucs.iter().enumerate() {
        // update model
        if let (Some(cur), Some(r)) = (poll.clone(), x.delivered()) {
            if seg::accepted_by_cup(c.cup, r) {
                poll = Some(retry_after_readings(r));
            } else {
                poll = Some(cur);
            }
        }
        let retr = retryable(c.cup, x);
        let in_force: Option<bool> = poll.as_ref().and_then(|alts| {
            let some = alts.iter().any(|a| a.is_some());
            let none = alts.iter().any(|a| a.is_none());
            if some && none {
                None
            } else {
                Some(some)
            }
        });
        let outcome = match &x.result {
            None => "inflight".to_string(),
            Some(Err(e)) => format!("{e:?}"),
            Some(Ok(r)) => format!("{}{}{}", r.status, if seg::accepted_by_cup(c.cup, r) { "" } else { "!unauth" }, if seg::header(&r.headers, "x-retry-after").is_empty() { "" } else { "+ra" }),
        };
        sig.push_str(&format!("{outcome},"));
        let is_last = k + 1 == n;
        if let (Some(retr), Some(in_force)) = (retr, in_force) {
            let should_retry = retr && !in_force && k + 1 < 3;
            m.count("R2.attempt_outcomes");
            if is_last && should_retry {
                m.viol(p, "R2", &site, format!("attempt {} ended in a transient failure ({outcome}) with no poll interval in force, but no further attempt was made", k + 1));
            }
            if !is_last && !should_retry {
                m.viol(p, "R2", &site, format!("attempt {} ended in {outcome} (retryable={retr}, poll interval in force={in_force}) but a further attempt was made", k + 1));
            }
        } else if !is_last {
            if retr == Some(false) {
                m.viol(p, "R2", &site, format!("attempt {} ended in {outcome}, which is never retried, but a further attempt was made", k + 1));
            }
        }
    }
    // R3: exactly one backoff timer between consecutive attempts, none otherwise
    let timers: Vec<(usize, TimerArg)> = (c.start..c.end)
        .filter_map(|i| if let Kind::TimerArm { arg, .. } = &h[i].kind { Some((i, arg.clone())) } else { None })
        .collect();
    let mut used = vec![false; timers.len()];
    for k in 0..n.saturating_sub(1) {
        let lo = ucs[k].deliver_idx.unwrap_or(ucs[k].send_idx);
        let hi = ucs[k + 1].send_idx;
        let between: Vec<usize> = timers.iter().enumerate().filter(|(_, (i, _))| *i > lo && *i < hi).map(|(j, _)| j).collect();
        m.count("R3.backoffs");
        if between.len() != 1 {
            m.viol(p, "R3", &site, format!("{} timers armed between attempts {} and {}", between.len(), k + 1, k + 2));
        }
        for j in between {
            used[j] = true;
            let nominal: u128 = (1u128 << k) * 1_000_000_000;
            match &timers[j].1 {
                TimerArg::For(d) => {
                    if *d + 500_000_000 < nominal || *d > nominal + 500_000_000 {
                        m.viol(p, "R3", &site, format!("backoff after attempt {} is {} ns, outside {} s +/- 500 ms", k + 1, d, 1u128 << k));
                    }
                }
                other => m.viol(p, "R3", &site, format!("backoff armed as {:?}", other)),
            }
        }
    }
    for (j, u) in used.iter().enumerate() {
        if !u {
            m.viol(p, "R3", &site, format!("a timer ({:?}) was armed inside a check outside the backoff slots", timers[j].1));
        }
    }
    // R4: same session id and payload, fresh request ids
    if n >= 2 {
        m.count("R4.retries");
        let first = body_minus_requestid(ucs[0]);
        for x in &ucs[1..] {
            if body_minus_requestid(x) != first {
                m.viol(p, "R4", &site, "a retry differs from the first attempt in more than the request id".to_string());
            }
        }
    }
    let mut ids: Vec<String> = xs.iter().filter_map(|x| x.request_id()).collect();
    let total = ids.len();
    ids.sort();
    ids.dedup();
    if ids.len() != total || total != xs.len() {
        m.viol(p, "R4", &site, format!("request ids of the check's {} requests are not pairwise distinct / present", xs.len()));
    }
    let sessions: std::collections::BTreeSet<Option<String>> = xs.iter().map(|x| x.session_id()).collect();
    if sessions.len() > 1 || sessions.contains(&None) {
        m.viol(p, "R4", &site, "requests of one check do not share one session id".to_string());
    }
    // R5: event reports are never re-sent
    let evs: Vec<Option<String>> = xs.iter().filter(|x| x.kind == ReqKind::Event).map(body_minus_requestid).collect();
    for i in 0..evs.len() {
        for j in i + 1..evs.len() {
            m.count("R5.event_pairs");
            if evs[i].is_some() && evs[i] == evs[j] {
                m.viol(p, "R5", &site, "an event report was sent twice".to_string());
            }
        }
    }
    // R6: metrics account for exactly the attempts made
    let mut rt_ns: Vec<u128> = vec![];
    let mut rt_idx: Vec<usize> = vec![];
    let mut rt: Vec<bool> = vec![];
    let mut rpc: Vec<(u64, bool)> = vec![];
    for i in c.start..c.end {
        match &h[i].kind {
            Kind::Metric(MetricRec::UpdateCheckResponseTime { successful, ns }) => {
                rt.push(*successful);
                rt_ns.push(*ns);
                rt_idx.push(i);
            }
            Kind::Metric(MetricRec::RequestsPerCheck { count, successful }) => rpc.push((*count, *successful)),
            _ => {}
        }
    }
    m.count("R6.metrics");
    if n >= 1 {
        if rt.len() != n {
            m.viol(p, "R6", &site, format!("{} response-time metrics for {n} attempts", rt.len()));
        } else {
            for (k, x) in ucs.iter().enumerate() {
                let ok = matches!(x.delivered(), Some(r) if seg::accepted_by_cup(c.cup, r) && seg::is_2xx(r.status));
                // the sample covers exactly this attempt: from a clock reading taken before the request
                // was sent (after the previous attempt ended) to one taken after its outcome was known
                // (before the sample was reported); how many readings the library takes is its business
                if let Some(di) = x.deliver_idx {
                    let lo = if k == 0 { c.start } else { ucs[k - 1].deliver_idx.unwrap_or(c.start) };
                    let hi = rt_idx.get(k).copied().unwrap_or(c.end);
                    let monos = |a: usize, b: usize| -> Vec<i64> {
                        (a..b)
                            .filter_map(|i| match &h[i].kind {
                                Kind::ClockRead { which, mono, .. } if which == "mono" || which == "both" => Some(*mono),
                                _ => None,
                            })
                            .collect()
                    };
                    let starts = monos(lo, x.send_idx);
                    let ends = monos(di, hi);
                    if !starts.is_empty() && !ends.is_empty() {
                        m.count("R6.response_time_values");
                        let fits = starts.iter().any(|s0| ends.iter().any(|e0| (e0 - s0).max(0) as u128 == rt_ns[k]));
                        if !fits {
                            m.viol(p, "R6", &site, format!("response-time metric of attempt {} is {} ns; no pair of clock readings before its request ({:?}) and after its outcome ({:?}) gives that", k + 1, rt_ns[k], starts, ends));
                        }
                    }
                }
                if x.result.is_some() && rt[k] != ok {
                    m.viol(p, "R6", &site, format!("response-time metric of attempt {} says successful={}, the attempt's outcome was {}", k + 1, rt[k], ok));
                }
            }
        }
        if rpc.len() != 1 || rpc[0].0 != n as u64 {
            m.viol(p, "R6", &site, format!("requests-per-check metric {:?} for {n} attempts", rpc));
        } else {
            let last_ok = matches!(ucs[n - 1].delivered(), Some(r) if seg::accepted_by_cup(c.cup, r) && seg::is_2xx(r.status));
            if rpc[0].1 != last_ok {
                m.viol(p, "R6", &site, format!("requests-per-check says successful={}, last attempt's outcome was {}", rpc[0].1, last_ok));
            }
        }
    } else if rpc.len() != 1 || rpc[0].0 > 1 || rpc[0].1 {
        m.viol(p, "R6", &site, format!("no request was sent but requests-per-check is {:?}", rpc));
    }
    m.sig(format!("{}|{:?}", sig, initial_poll.map(|x| x.is_some())));
    if m.sample.is_none() && n >= 2 {
        m.sample = Some(serde_json::json!({"check_at": site, "attempt_outcomes": sig, "backoffs": format!("{:?}", timers)}));
    }
}

/// R7 helper: the first backoff delay of a run, if any retry happened.
pub fn first_backoff(out: &RunOut) -> Option<u128> {
    let h = &out.hist;
    let mut seen_uc_deliver = false;
    for r in h {
        match &r.kind {
            Kind::HttpDeliver { .. } => seen_uc_deliver = true,
            Kind::TimerArm { arg: TimerArg::For(d), .. } if seen_uc_deliver => {
                if *d >= 500_000_000 && *d <= 1_500_000_000 {
                    return Some(*d);
                }
            }
            _ => {}
        }
    }
    None
}
