//! C11 — every control request gets exactly one, truthful reply.

use crate::exec::RunOut;
use crate::hist::*;
use crate::mon::*;
use crate::seg;
use std::collections::BTreeMap;

struct Req {
    invoke: usize,
    reply: Option<(usize, CtlReply)>,
    source: Src,
    vt_invoke: u64,
}

pub fn monitor(out: &RunOut) -> MonOut {
    let mut m = MonOut::default();
    let p = "C11";
    let h = &out.hist;
    for l in seg::lives(h) {
        if !l.started || !l.mode_start {
            continue;
        }
        let (checks, waits) = seg::checks(h, &l);
        let mut reqs: Vec<Req> = vec![];
        let mut open: BTreeMap<(u32, u32), usize> = BTreeMap::new();
        let mut stream_gone_at: Option<usize> = None;
        for i in l.start..l.end {
            match &h[i].kind {
                Kind::CtlInvoke { client, req, source } => {
                    open.insert((*client, *req), reqs.len());
                    reqs.push(Req { invoke: i, reply: None, source: *source, vt_invoke: h[i].vt });
                }
                Kind::CtlReply { client, req, reply } => {
                    if let Some(k) = open.remove(&(*client, *req)) {
                        if reqs[k].reply.is_some() {
                            m.viol(p, "R1", format!("L{}@{}", l.life, i), "a request received two replies".to_string());
                        }
                        reqs[k].reply = Some((i, reply.clone()));
                    }
                }
                Kind::StreamDrop | Kind::StreamEnd => {
                    if stream_gone_at.is_none() {
                        stream_gone_at = Some(i);
                    }
                }
                _ => {}
            }
        }
        // busy intervals: positive decision .. Idle
        let mut busy: Vec<(usize, usize)> = vec![];
        for c in &checks {
            let mut end = c.end;
            if c.ended == "waiting_for_reboot" {
                if let Some(w) = waits.iter().find(|w| w.start == c.end) {
                    end = w.end;
                }
            }
            busy.push((c.start, end));
        }
        // policy calls
        let calls: Vec<(usize, Src, bool)> = (l.start..l.end)
            .filter_map(|i| if let Kind::Policy(PolicyRec::CheckAllowed { source, answer, .. }) = &h[i].kind { Some((i, *source, answer.params().is_some())) } else { None })
            .collect();
        let mut used = vec![false; calls.len()];
        for r in &reqs {
            let site = format!("L{}@{}", l.life, r.invoke);
            m.count("R1.requests");
            match &r.reply {
                None => {
                    // R1: a request must not be left hanging once nothing else can happen
                    if l.end_why == "stuck" {
                        m.viol(p, "R1", &site, "the request never received a reply and the system came to a halt".to_string());
                    }
                    if let Some(g) = stream_gone_at {
                        if l.end_why == "done" && g > r.invoke {
                            m.viol(p, "R7", &site, "the state machine is gone but the pending request was not failed".to_string());
                        }
                    }
                    m.count("R1.unanswered_at_end");
                }
                Some((ri, reply)) => {
                    m.sig(format!("{:?}|{:?}", reply, r.source));
                    match reply {
                        CtlReply::Started | CtlReply::Throttled => {
                            let want_pos = *reply == CtlReply::Started;
                            m.count("R2.started_or_throttled");
                            let k = calls.iter().enumerate().position(|(k, (ci, src, pos))| !used[k] && *ci > r.invoke && *ci < *ri && *src == r.source && *pos == want_pos);
                            match k {
                                Some(k) => used[k] = true,
                                None => m.viol(p, "R2", &site, format!("reply {:?} but no policy decision with the request's options ({:?}) and that outcome lies between request and reply", reply, r.source)),
                            }
                        }
                        CtlReply::AlreadyRunning => {
                            m.count("R3.already_running");
                            let hit = busy.iter().any(|(a, b)| r.invoke < *b && *ri > *a);
                            if !hit {
                                m.viol(p, "R3", &site, "reply AlreadyRunning but no check or reboot wait was in progress between request and reply".to_string());
                            }
                            // R4: on-demand upgrade
                            if r.source == Src::OnDemand {
                                if let Some(w) = waits.iter().find(|w| *ri > w.start && *ri < w.end) {
                                    m.count("R4.on_demand_during_reboot_wait");
                                    // the request upgrades the pending reboot question: an on-demand
                                    // question is asked after the request was made (the reply is observed
                                    // by the client later than the question is put)
                                    let lo = r.invoke.max(w.start);
                                    let q = (lo..w.end).find(|j| matches!(&h[*j].kind, Kind::Policy(PolicyRec::RebootAllowed { source: Src::OnDemand, .. })));
                                    match q {
                                        None => {
                                            if w.complete || l.end_why == "reboot" {
                                                m.viol(p, "R4", &site, "an on-demand request during the reboot wait did not lead to an on-demand reboot question".to_string());
                                            }
                                        }
                                        Some(j) => {
                                            // every later question of this wait stays on-demand
                                            for k in j..w.end {
                                                if let Kind::Policy(PolicyRec::RebootAllowed { source, .. }) = &h[k].kind {
                                                    if *source != Src::OnDemand {
                                                        m.viol(p, "R4", &site, "the reboot question fell back from on-demand".to_string());
                                                    }
                                                }
                                            }
                                            if let Kind::Policy(PolicyRec::RebootAllowed { answer: true, .. }) = &h[j].kind {
                                                // a yes triggers the reboot: no further question is asked
                                                let next_q = (j + 1..w.end).find(|k| matches!(h[*k].kind, Kind::Policy(PolicyRec::RebootAllowed { .. })));
                                                if next_q.is_some() {
                                                    m.viol(p, "R4", &site, "the policy allowed the reboot after the on-demand request but the question was asked again".to_string());
                                                }
                                                let reboot = (j..l.end).any(|k| matches!(h[k].kind, Kind::Installer(InstallerRec::Reboot { .. })));
                                                if !reboot && w.complete {
                                                    m.viol(p, "R4", &site, "the policy allowed the reboot after the on-demand request but no reboot was performed".to_string());
                                                }
                                            }
                                        }
                                    }
                                } else if let Some(c) = checks.iter().find(|c| *ri > c.start && *ri < c.end) {
                                    if c.ended == "waiting_for_reboot" {
                                        if let Some(w) = waits.iter().find(|w| w.start == c.end) {
                                            m.count("R4.on_demand_during_check");
                                            for j in w.start..w.end {
                                                if let Kind::Policy(PolicyRec::RebootAllowed { source, .. }) = &h[j].kind {
                                                    if *source != Src::OnDemand {
                                                        m.viol(p, "R4", &site, "an on-demand request during the check did not make the reboot question on-demand".to_string());
                                                    }
                                                }
                                            }
                                        }
                                    }
                                }
                            }
                        }
                        CtlReply::Gone => {
                            m.count("R7.gone");
                            match stream_gone_at {
                                Some(g) if g < *ri => {}
                                _ => m.viol(p, "R7", &site, "reply 'state machine gone' although its stream was neither dropped nor ended".to_string()),
                            }
                        }
                    }
                    // R7: after the stream is gone every request fails with Gone
                    if let Some(g) = stream_gone_at {
                        if r.invoke > g && *reply != CtlReply::Gone {
                            m.viol(p, "R7", &site, format!("request made after the machine was gone got {:?}", reply));
                        }
                    }
                }
            }
        }
        // R2 converse: an on-demand policy question needs an on-demand request
        for (k, (ci, src, _)) in calls.iter().enumerate() {
            if *src == Src::OnDemand {
                m.count("R2.on_demand_decisions");
                let justified = used[k] || reqs.iter().any(|r| r.source == Src::OnDemand && r.invoke < *ci && r.reply.as_ref().map(|(ri, _)| *ri > *ci).unwrap_or(true));
                if !justified {
                    m.viol(p, "R2", format!("L{}@{}", l.life, ci), "the policy was asked about an on-demand check that no request asked for".to_string());
                }
            }
        }
        // R4 converse: the reboot question is on-demand only for an on-demand cause
        {
            let mut own = false;
            let mut busy_start = l.start;
            for i in l.start..l.end {
                match &h[i].kind {
                    Kind::Policy(PolicyRec::CheckAllowed { answer, source, .. }) if answer.params().is_some() => {
                        own = *source == Src::OnDemand;
                        busy_start = i;
                    }
                    Kind::Policy(PolicyRec::RebootAllowed { source: Src::OnDemand, .. }) => {
                        m.count("R4.on_demand_reboot_questions");
                        let by_request = reqs.iter().any(|r| r.source == Src::OnDemand && r.invoke < i && r.reply.as_ref().map(|(ri, _)| *ri > busy_start).unwrap_or(true));
                        if !own && !by_request {
                            m.viol(p, "R4", format!("L{}@{}", l.life, i), "the reboot question was upgraded to on-demand although no on-demand request arrived".to_string());
                        }
                    }
                    _ => {}
                }
            }
        }
        // R6: after all handles are dropped scheduled operation continues (no spin, no halt)
        let dropped_all = (l.start..l.end).find(|i| matches!(h[*i].kind, Kind::CtlHandleDrop { client } if client == u32::MAX));
        if let Some(d) = dropped_all {
            m.count("R6.all_handles_dropped");
            if l.end_why == "stuck" {
                m.viol(p, "R6", format!("L{}@{}", l.life, d), "after all handles were dropped the machine came to a halt".to_string());
            }
            if (d..l.end).any(|i| matches!(&h[i].kind, Kind::Note(n) if n == "spin")) {
                m.viol(p, "R6", format!("L{}@{}", l.life, d), "after all handles were dropped the task spins".to_string());
            }
            if (d..l.end).any(|i| matches!(h[i].kind, Kind::Policy(PolicyRec::CheckAllowed { .. }))) {
                m.count("R6.checks_after_drop");
            }
        }
        // R5 (wake-up without timer) is evaluated in a dedicated profile through virtual time
        if out.stats.contains_key("profile.far_timers") {
            for r in &reqs {
                if let Some((ri, reply)) = &r.reply {
                    if matches!(reply, CtlReply::Started | CtlReply::Throttled) {
                        m.count("R5.woken_requests");
                        let dt = h[*ri].vt.saturating_sub(r.vt_invoke);
                        let fired_between = (r.invoke..*ri).any(|i| matches!(h[i].kind, Kind::TimerFire { .. }));
                        if !fired_between {
                            m.count("R5.replied_without_any_timer_firing");
                        }
                        if dt > 3_000_000_000_000 {
                            m.viol(p, "R5", format!("L{}@{}", l.life, r.invoke), format!("the request was only served after {} s of simulated time: the waiting machine was not woken by the request", dt / 1_000_000_000));
                        }
                    }
                }
            }
        }
    }
    if m.sample.is_none() {
        if let Some(s) = m.sigs.first() {
            m.sample = Some(serde_json::json!({ "reply|options": s }));
        }
    }
    m
}
