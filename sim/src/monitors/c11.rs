//! C11 — every control request gets exactly one, truthful reply.

use crate::exec::RunOut;
use crate::hist::*;
use crate::mon::*;
use crate::seg;
use std::collections::BTreeMap;

struct Req {
    invoke: usize,
    reply: Option<(usize, CtlReply)>,
    source: Src,
    vt_invoke: u64,
    abandoned: bool,
}

pub fn monitor(out: &RunOut) -> MonOut {
    let mut m = MonOut::default();
    let p = "C11";
    let h = &out.hist;
    for l in seg::lives(h) {
        if !l.started || !l.mode_start {
            continue;
        }
        let (checks, waits) = seg::checks(h, &l);
        let mut reqs: Vec<Req> = vec![];
        let mut open: BTreeMap<(u32, u32), usize> = BTreeMap::new();
        let mut stream_gone_at: Option<usize> = None;
        for i in l.start..l.end {
            match &h[i].kind {
                Kind::CtlInvoke { client, req, source } => {
                    open.insert((*client, *req), reqs.len());
                    reqs.push(Req { invoke: i, reply: None, source: *source, vt_invoke: h[i].vt, abandoned: false });
                }
                Kind::CtlAbandon { client, req } => {
                    // no reply can be observed for it; the machine may still receive and act on it
                    if let Some(k) = open.get(&(*client, *req)) {
                        reqs[*k].abandoned = true;
                    }
                }
                Kind::CtlReply { client, req, reply } => {
                    if let Some(k) = open.remove(&(*client, *req)) {
                        if reqs[k].reply.is_some() {
                            m.viol(p, "R1", format!("L{}@{}", l.life, i), "a request received two replies".to_string());
                        }
                        reqs[k].reply = Some((i, reply.clone()));
                    }
                }
                Kind::StreamDrop | Kind::StreamEnd => {
                    if stream_gone_at.is_none() {
                        stream_gone_at = Some(i);
                    }
                }
                _ => {}
            }
        }
        // busy intervals: positive decision .. Idle
        let mut busy: Vec<(usize, usize)> = vec![];
        for c in &checks {
            let mut end = c.end;
            if c.ended == "waiting_for_reboot" {
                if let Some(w) = waits.iter().find(|w| w.start == c.end) {
                    end = w.end;
                }
            }
            busy.push((c.start, end));
        }
        // policy calls
        let calls: Vec<(usize, Src, bool)> = (l.start..l.end)
            .filter_map(|i| if let Kind::Policy(PolicyRec::CheckAllowed { source, answer, .. }) = &h[i].kind { Some((i, *source, answer.params().is_some())) } else { None })
            .collect();
        let mut used = vec![false; calls.len()];
        for r in &reqs {
            let site = format!("L{}@{}", l.life, r.invoke);
            m.count("R1.requests");
            match &r.reply {
                None if r.abandoned => {
                    m.count("R1.abandoned_by_the_caller");
                }
                None => {
                    // R1: a request must not be left hanging once nothing else can happen
                    if l.end_why == "stuck" {
                        m.viol(p, "R1", &site, "the request never received a reply and the system came to a halt".to_string());
                    }
                    if let Some(g) = stream_gone_at {
                        if l.end_why == "done" && g > r.invoke {
                            m.viol(p, "R7", &site, "the state machine is gone but the pending request was not failed".to_string());
                        }
                    }
                    m.count("R1.unanswered_at_end");
                }
                Some((ri, reply)) => {
                    // where the request landed: the kind of the last environment observation before it
                    let landed = (l.start..r.invoke).rev().find_map(|j| match &h[j].kind {
                        Kind::TimerArm { .. } => Some("timer-armed"),
                        Kind::HttpSend { .. } => Some("http-in-flight"),
                        Kind::Policy(PolicyRec::ComputeNext { .. }) => Some("policy-next"),
                        Kind::Policy(PolicyRec::CheckAllowed { .. }) => Some("policy-allowed"),
                        Kind::Policy(PolicyRec::CanStart { .. }) => Some("policy-canstart"),
                        Kind::Policy(PolicyRec::RebootAllowed { .. }) => Some("policy-reboot"),
                        Kind::Installer(InstallerRec::CreatePlan { .. }) => Some("plan"),
                        Kind::Installer(InstallerRec::PerformInstall { .. }) | Kind::Installer(InstallerRec::ProgressSent { .. }) | Kind::Installer(InstallerRec::ProgressReturned { .. }) => Some("install"),
                        Kind::HttpDeliver { .. } => Some("http-delivered"),
                        Kind::TimerFire { .. } => Some("timer-fired"),
                        Kind::Event(EventRec::State(StateRec::WaitingForReboot)) => Some("waiting-for-reboot"),
                        Kind::Event(EventRec::State(StateRec::Idle)) => Some("idle"),
                        _ => None,
                    }).unwrap_or("start");
                    let concurrent = reqs.iter().filter(|o| o.invoke < r.invoke && o.reply.as_ref().map(|(oi, _)| *oi > r.invoke).unwrap_or(true)).count();
                    m.sig(format!("{:?}|{:?}|{landed}|pending{concurrent}", reply, r.source));
                    match reply {
                        CtlReply::Started | CtlReply::Throttled => {
                            let want_pos = *reply == CtlReply::Started;
                            m.count("R2.started_or_throttled");
                            let k = calls.iter().enumerate().position(|(k, (ci, src, pos))| !used[k] && *ci > r.invoke && *ci < *ri && *src == r.source && *pos == want_pos);
                            match k {
                                Some(k) => used[k] = true,
                                None => m.viol(p, "R2", &site, format!("reply {:?} but no policy decision with the request's options ({:?}) and that outcome lies between request and reply", reply, r.source)),
                            }
                        }
                        CtlReply::AlreadyRunning => {
                            m.count("R3.already_running");
                            let hit = busy.iter().any(|(a, b)| r.invoke < *b && *ri > *a);
                            if !hit {
                                m.viol(p, "R3", &site, "reply AlreadyRunning but no check or reboot wait was in progress between request and reply".to_string());
                            }
                            // R4: on-demand upgrade
                            if r.source == Src::OnDemand {
                                if let Some(w) = waits.iter().find(|w| *ri > w.start && *ri < w.end) {
                                    m.count("R4.on_demand_during_reboot_wait");
                                    // the request upgrades the pending reboot question: an on-demand
                                    // question is asked after the request was made (the reply is observed
                                    // by the client later than the question is put)
                                    let lo = r.invoke.max(w.start);
                                    let q = (lo..w.end).find(|j| matches!(&h[*j].kind, Kind::Policy(PolicyRec::RebootAllowed { source: Src::OnDemand, .. })));
                                    match q {
                                        None => {
                                            if w.complete || l.end_why == "reboot" {
                                                m.viol(p, "R4", &site, "an on-demand request during the reboot wait did not lead to an on-demand reboot question".to_string());
                                            }
                                        }
                                        Some(j) => {
                                            // every later question of this wait stays on-demand
                                            for k in j..w.end {
                                                if let Kind::Policy(PolicyRec::RebootAllowed { source, .. }) = &h[k].kind {
                                                    if *source != Src::OnDemand {
                                                        m.viol(p, "R4", &site, "the reboot question fell back from on-demand".to_string());
                                                    }
                                                }
                                            }
                                            if let Kind::Policy(PolicyRec::RebootAllowed { answer: true, .. }) = &h[j].kind {
                                                // a yes triggers the reboot: no further question is asked
                                                let next_q = (j + 1..w.end).find(|k| matches!(h[*k].kind, Kind::Policy(PolicyRec::RebootAllowed { .. })));
                                                if next_q.is_some() {
                                                    m.viol(p, "R4", &site, "the policy allowed the reboot after the on-demand request but the question was asked again".to_string());
                                                }
                                                let reboot = (j..l.end).any(|k| matches!(h[k].kind, Kind::Installer(InstallerRec::Reboot { .. })));
                                                if !reboot && w.complete {
                                                    m.viol(p, "R4", &site, "the policy allowed the reboot after the on-demand request but no reboot was performed".to_string());
                                                }
                                            }
                                        }
                                    }
                                } else if let Some(c) = checks.iter().find(|c| *ri > c.start && *ri < c.end) {
                                    if c.ended == "waiting_for_reboot" {
                                        if let Some(w) = waits.iter().find(|w| w.start == c.end) {
                                            m.count("R4.on_demand_during_check");
                                            for j in w.start..w.end {
                                                if let Kind::Policy(PolicyRec::RebootAllowed { source, .. }) = &h[j].kind {
                                                    if *source != Src::OnDemand {
                                                        m.viol(p, "R4", &site, "an on-demand request during the check did not make the reboot question on-demand".to_string());
                                                    }
                                                }
                                            }
                                        }
                                    }
                                }
                            }
                        }
                        CtlReply::Gone => {
                            m.count("R7.gone");
                            match stream_gone_at {
                                Some(g) if g < *ri => {}
                                _ => m.viol(p, "R7", &site, "reply 'state machine gone' although its stream was neither dropped nor ended".to_string()),
                            }
                        }
                    }
                    // R7: after the stream is gone every request fails with Gone
                    if let Some(g) = stream_gone_at {
                        if r.invoke > g && *reply != CtlReply::Gone {
                            m.viol(p, "R7", &site, format!("request made after the machine was gone got {:?}", reply));
                        }
                    }
                }
            }
        }
        // R2 converse: an on-demand policy question needs an on-demand request
        for (k, (ci, src, _)) in calls.iter().enumerate() {
            if *src == Src::OnDemand {
                m.count("R2.on_demand_decisions");
                let justified = used[k] || reqs.iter().any(|r| r.source == Src::OnDemand && r.invoke < *ci && r.reply.as_ref().map(|(ri, _)| *ri > *ci).unwrap_or(true));
                if !justified {
                    m.viol(p, "R2", format!("L{}@{}", l.life, ci), "the policy was asked about an on-demand check that no request asked for".to_string());
                }
            }
        }
        // R4 converse: the reboot question is on-demand only for an on-demand cause
        {
            let mut own = false;
            let mut busy_start = l.start;
            for i in l.start..l.end {
                match &h[i].kind {
                    Kind::Policy(PolicyRec::CheckAllowed { answer, source, .. }) if answer.params().is_some() => {
                        own = *source == Src::OnDemand;
                        busy_start = i;
                    }
                    Kind::Policy(PolicyRec::RebootAllowed { source: Src::OnDemand, .. }) => {
                        m.count("R4.on_demand_reboot_questions");
                        let by_request = reqs.iter().any(|r| r.source == Src::OnDemand && r.invoke < i && r.reply.as_ref().map(|(ri, _)| *ri > busy_start).unwrap_or(true));
                        if !own && !by_request {
                            m.viol(p, "R4", format!("L{}@{}", l.life, i), "the reboot question was upgraded to on-demand although no on-demand request arrived".to_string());
                        }
                    }
                    _ => {}
                }
            }
        }
        // R4 (trigger): an on-demand request answered inside a reboot wait puts the reboot question
        // at once; unless the wait's own 30-minute timer fired in the window, a question between the
        // request and the client's observation of the reply must exist, one per request
        {
            let mut used_q: Vec<usize> = vec![];
            for r in &reqs {
                if r.source != Src::OnDemand {
                    continue;
                }
                let (ri, reply) = match &r.reply {
                    Some(x) => x.clone(),
                    None => continue,
                };
                if reply != CtlReply::AlreadyRunning {
                    continue;
                }
                let w = match waits.iter().find(|w| ri > w.start && ri < w.end && r.invoke > w.start) {
                    Some(w) => w,
                    None => continue,
                };
                // was a previous question already answered yes (the wait is ending)?
                let ended = (w.start..r.invoke).any(|j| matches!(&h[j].kind, Kind::Policy(PolicyRec::RebootAllowed { answer: true, .. })));
                let timer_fired = (r.invoke..ri).any(|j| {
                    if let Kind::TimerFire { id } = &h[j].kind {
                        (w.start..j).any(|k| matches!(&h[k].kind, Kind::TimerArm { id: id2, arg: TimerArg::For(d), .. } if id2 == id && *d == 1_800_000_000_000))
                    } else {
                        false
                    }
                });
                if ended || timer_fired {
                    continue;
                }
                m.count("R4.on_demand_triggers_question");
                let q = (r.invoke..ri).find(|j| !used_q.contains(j) && matches!(&h[*j].kind, Kind::Policy(PolicyRec::RebootAllowed { source: Src::OnDemand, .. })));
                match q {
                    Some(j) => used_q.push(j),
                    None => m.viol(p, "R4", format!("L{}@{}", l.life, r.invoke), "an on-demand request during the reboot wait was answered without the reboot question being put".to_string()),
                }
            }
        }
        // R5 (no starvation): a request made while the machine goes round its waiting loop (asking the
        // policy for the next time again and again) is read and answered within a few rounds
        {
            let nexts: Vec<usize> = (l.start..l.end).filter(|i| matches!(h[*i].kind, Kind::Policy(PolicyRec::ComputeNext { .. }))).collect();
            for r in &reqs {
                if r.abandoned {
                    continue;
                }
                let upto = r.reply.as_ref().map(|(ri, _)| *ri).unwrap_or(l.end);
                let rounds = nexts.iter().filter(|j| **j > r.invoke && **j < upto).count();
                let in_busy = busy.iter().any(|(a, b)| r.invoke > *a && r.invoke < *b);
                if rounds > 0 && !in_busy {
                    m.count("R5.requests_while_the_waiting_loop_turns");
                }
                if rounds > 40 && !in_busy {
                    m.viol(p, "R5", format!("L{}@{}", l.life, r.invoke), format!("the machine went round its waiting loop {rounds} times without reading the request (no reply{})", if r.reply.is_some() { " until much later" } else { "" }));
                }
            }
        }
        // R6: after all handles are dropped scheduled operation continues (no spin, no halt)
        let dropped_all = (l.start..l.end).find(|i| matches!(h[*i].kind, Kind::CtlHandleDrop { client } if client == u32::MAX));
        if let Some(d) = dropped_all {
            m.count("R6.all_handles_dropped");
            if l.end_why == "stuck" {
                m.viol(p, "R6", format!("L{}@{}", l.life, d), "after all handles were dropped the machine came to a halt".to_string());
            }
            if (d..l.end).any(|i| matches!(&h[i].kind, Kind::Note(n) if n == "spin")) {
                m.viol(p, "R6", format!("L{}@{}", l.life, d), "after all handles were dropped the task spins".to_string());
            }
            if (d..l.end).any(|i| matches!(h[i].kind, Kind::Policy(PolicyRec::CheckAllowed { .. }))) {
                m.count("R6.checks_after_drop");
            }
            // scheduled operation intact: after the drop a check begins only when all timers of its wait fired
            let mut armed: Vec<(u64, bool)> = vec![];
            let mut tracking = false;
            for i in l.start..l.end {
                match &h[i].kind {
                    Kind::Policy(PolicyRec::ComputeNext { .. }) => {
                        armed.clear();
                        tracking = true;
                    }
                    Kind::TimerArm { id, arg, .. } if tracking => {
                        if *arg != TimerArg::For(1_800_000_000_000) {
                            armed.push((*id, false));
                        }
                    }
                    Kind::TimerFire { id } => {
                        for a in armed.iter_mut() {
                            if a.0 == *id {
                                a.1 = true;
                            }
                        }
                    }
                    Kind::Policy(PolicyRec::CheckAllowed { .. }) => {
                        if tracking && i > d {
                            let pending_req = reqs.iter().any(|r| r.invoke < i && r.reply.as_ref().map(|(ri, _)| *ri > i).unwrap_or(true));
                            if !armed.is_empty() && !armed.iter().all(|a| a.1) && !pending_req {
                                m.viol(p, "R6", format!("L{}@{}", l.life, i), "after all handles were dropped a check began although the wait's timers had not fired".to_string());
                            }
                        }
                        tracking = false;
                    }
                    _ => {}
                }
            }
        }
        // R5 (wake-up without timer) is evaluated in a dedicated profile through virtual time
        if out.stats.contains_key("profile.far_timers") {
            for r in &reqs {
                if let Some((ri, reply)) = &r.reply {
                    if matches!(reply, CtlReply::Started | CtlReply::Throttled) {
                        m.count("R5.woken_requests");
                        let dt = h[*ri].vt.saturating_sub(r.vt_invoke);
                        let fired_between = (r.invoke..*ri).any(|i| matches!(h[i].kind, Kind::TimerFire { .. }));
                        if !fired_between {
                            m.count("R5.replied_without_any_timer_firing");
                        }
                        if dt > 3_000_000_000_000 {
                            m.viol(p, "R5", format!("L{}@{}", l.life, r.invoke), format!("the request was only served after {} s of simulated time: the waiting machine was not woken by the request", dt / 1_000_000_000));
                        }
                    }
                }
            }
        }
    }
    if m.sample.is_none() {
        if let Some(s) = m.sigs.first() {
            m.sample = Some(serde_json::json!({ "reply|options": s }));
        }
    }
    m
}
