//! C08 — protocol bookkeeping is exact, durable and crash-consistent.
//! Reference model: (consecutive failures, last-contact time), stepped from environment
//! observations; the poll interval's own semantics belong to C07, here it only takes part in
//! the "no mixture of two commits" comparison through the last announced value.

use super::c04::uc_truth;
use super::common::*;
use crate::exec::RunOut;
use crate::hist::*;
use crate::mon::*;
use crate::seg;

#[derive(Clone, Debug, PartialEq)]
struct Triple {
    failures: u32,
    last: Option<TimeRec>,
    poll: Option<u128>,
}

/// what a restarted machine presents for an in-memory triple: wall-only, microsecond precision,
/// dropped when it does not fit
fn stored_form(t: &Triple) -> Triple {
    let last = match &t.last {
        Some(TimeRec { wall: Some(w), .. }) if fits_i64_us(*w) => Some(TimeRec { wall: Some(trunc_us_toward_epoch(*w)), mono: None }),
        _ => None,
    };
    // poll interval is stored in microseconds as well
    let poll = t.poll.map(|p| (p / 1000) * 1000);
    Triple { failures: t.failures, last, poll }
}

fn probe_triple(sched: &SchedRec, proto: &ProtoRec) -> Triple {
    Triple { failures: proto.failures, last: sched.last_update_time.clone(), poll: proto.poll_ns }
}

pub fn monitor(out: &RunOut) -> MonOut {
    run(out, "C08")
}

/// The same model under another label: C19 evaluates it in profiles built around wall-clock
/// classes (pre-epoch, sub-microsecond, i64-microsecond limits) and hostile stored integers.
pub fn run(out: &RunOut, p: &str) -> MonOut {
    let mut m = MonOut::default();
    let h = &out.hist;
    let lives = seg::lives(h);
    for (li, l) in lives.iter().enumerate() {
        if !l.started {
            continue;
        }
        let (checks, _waits) = seg::checks(h, l);
        let xs = seg::exchanges(h, l.start, l.end);
        let mut model: Option<Triple> = None;
        let mut prev_probe: Option<Triple> = None;
        let mut start_probe: Option<Triple> = None;
        let mut resync = false; // model lost track (unknown ground truth): adopt next observation
        let mut clock_reads: Vec<(usize, i128, i64)> = vec![];
        let mut last_commit_after_result: Option<usize> = None;
        let mut pending_ping: Option<usize> = None; // index into xs
        let mut pre_step: Option<(u32, Option<TimeRec>)> = None;
        // (site, presented, previous commit, values then current) of commits awaiting their check's result
        let mut deferred: Vec<(String, Triple, Option<Triple>, Triple, Option<Option<u128>>)> = vec![];
        let mut sig = String::new();
        for i in l.start..l.end {
            let r = &h[i];
            let site = format!("L{}@{}", l.life, i);
            match &r.kind {
                Kind::ClockRead { wall, mono, which } if which == "both" => clock_reads.push((i, *wall, *mono)),
                Kind::Probe { sched, proto, .. } => {
                    let t = probe_triple(sched, proto);
                    if start_probe.is_none() {
                        start_probe = Some(t.clone());
                        prev_probe = Some(t);
                        continue;
                    }
                    if let (Some(md), false) = (&model, resync) {
                        // R3: never a mixture of two commits
                        m.count("R3.commits_probed");
                        let cur = stored_form(md);
                        // a ping's bookkeeping takes effect somewhere between its answer and the
                        // next policy question: until then the pre-step pair is admissible too,
                        // but only as a pair
                        let pre = pre_step.as_ref().map(|(f, l)| stored_form(&Triple { failures: *f, last: l.clone(), poll: md.poll }));
                        let pair_ok = (t.failures == cur.failures && t.last == cur.last)
                            || pre.as_ref().map(|p| t.failures == p.failures && t.last == p.last).unwrap_or(false);
                        // the interval (C07's subject) may be committed before it is announced: the value of
                        // the next announcement / policy argument is admissible as well
                        let next_poll: Option<Option<u128>> = (i + 1..l.end).find_map(|j| match &h[j].kind {
                            Kind::Event(EventRec::Proto(pr)) => Some(pr.poll_ns),
                            Kind::Policy(PolicyRec::ComputeNext { proto, .. }) | Kind::Policy(PolicyRec::CheckAllowed { proto, .. }) => Some(proto.poll_ns),
                            _ => None,
                        });
                        let poll_ok = t.poll == cur.poll || Some(t.poll) == prev_probe.as_ref().map(|p| p.poll) || Some(t.poll) == next_poll;
                        let ok = Some(&t) == prev_probe.as_ref() || (pair_ok && poll_ok);
                        // a commit made inside a check before its result is announced may already hold
                        // the values the check ends with: judged when the result is known
                        let open_check = checks.iter().any(|c| c.start <= i && i < c.end && c.result_idx.map(|r| r > i).unwrap_or(true));
                        if !ok && open_check {
                            m.count("R3.commits_before_the_result");
                            deferred.push((site.clone(), t.clone(), prev_probe.clone(), cur.clone(), next_poll));
                        } else if !ok {
                            m.viol(p, "R3", &site, format!("committed state presents {:?}: neither the previous commit {:?} nor the current values {:?}", t, prev_probe, cur));
                        }
                    }
                    prev_probe = Some(t);
                    last_commit_after_result = Some(i);
                }
                Kind::Policy(PolicyRec::ComputeNext { sched, proto, .. }) | Kind::Policy(PolicyRec::CheckAllowed { sched, proto, .. }) => {
                    let seen = Triple { failures: proto.failures, last: sched.last_update_time.clone(), poll: proto.poll_ns };
                    pre_step = None;
                    match (&mut model, resync) {
                        (None, _) => {
                            // first presentation of this lifetime
                            if let Some(sp) = &start_probe {
                                m.count("R4.first_presentation");
                                if *sp != seen {
                                    m.viol(p, "R4", &site, format!("machine built on the surviving storage presents {:?}, the last completed commit presents {:?}", seen, sp));
                                }
                            }
                            // ... and what the stored integers say, read independently of the library's
                            // conversions: microseconds since the epoch (of either sign) for the time,
                            // microseconds for the interval, a count that fits u32
                            if let Kind::DiskCommitted { map } = &h[l.start + 1].kind {
                                m.count("R4.first_presentation_against_stored_integers");
                                let want_last = match map.get("last_update_time") {
                                    Some(DiskVal::I(v)) => Some(TimeRec { wall: Some(*v as i128 * 1000), mono: None }),
                                    _ => None,
                                };
                                let want_poll = match map.get("server_dictated_poll_interval") {
                                    Some(DiskVal::I(v)) if *v >= 0 => Some(*v as u128 * 1000),
                                    _ => None,
                                };
                                let want_failures = match map.get("consecutive_failed_update_checks") {
                                    Some(DiskVal::I(v)) if *v >= 0 && *v <= u32::MAX as i64 => *v as u32,
                                    _ => 0,
                                };
                                if seen.last != want_last || seen.poll != want_poll || seen.failures != want_failures {
                                    m.viol(p, "R4", &site, format!("machine built on storage {:?} presents {:?}; the stored integers say last-contact {:?}, interval {:?} ns, {} failures", map, seen, want_last, want_poll, want_failures));
                                }
                            }
                            if li == 0 {
                                if let Kind::DiskCommitted { map } = &h[l.start + 1].kind {
                                    if map.is_empty() && (seen.failures != 0 || seen.last.is_some() || seen.poll.is_some()) {
                                        m.viol(p, "R1", &site, format!("fresh machine on empty storage presents {:?}", seen));
                                    }
                                }
                            }
                            model = Some(seen);
                        }
                        (Some(md), true) => {
                            *md = seen;
                            resync = false;
                        }
                        (Some(md), false) => {
                            m.count("R1.policy_args");
                            md.poll = seen.poll;
                            if md.failures != seen.failures {
                                m.viol(p, "R1", &site, format!("policy sees {} consecutive failures, the history has {} ({})", seen.failures, md.failures, sig));
                                md.failures = seen.failures;
                            }
                            if md.last != seen.last {
                                m.viol(p, "R1", &site, format!("policy sees last-contact time {:?}, the history gives {:?} ({})", seen.last, md.last, sig));
                                md.last = seen.last.clone();
                            }
                        }
                    }
                }
                Kind::Event(EventRec::Proto(pv)) => {
                    if let Some(md) = &mut model {
                        md.poll = pv.poll_ns;
                    }
                }
                Kind::Event(EventRec::Result(res)) => {
                    // find the check this result belongs to
                    let c = match checks.iter().find(|c| c.result_idx == Some(i)) {
                        Some(c) => c,
                        None => continue,
                    };
                    let cxs = seg::exchanges(h, c.start, c.end);
                    let truth = uc_truth(c, &cxs);
                    let contact = match res {
                        Ok(_) => true,
                        Err(ErrRec::ResponseParser) | Err(ErrRec::InstallPlan) => true,
                        Err(_) => false,
                    };
                    // classification of the result itself is C04's business; here the result as
                    // announced drives the model, cross-checked against ground truth where known
                    let truth_contact = match truth.usable {
                        Some(true) => Some(true),
                        Some(false) => Some(matches!(truth.err, Some(ErrRec::ResponseParser))),
                        None => None,
                    };
                    sig = format!("{}|{:?}", truth.why, res.as_ref().map(|_| ()).map_err(|e| e.clone()));
                    m.sig(sig.clone());
                    if let Some(md) = &mut model {
                        if resync {
                            continue;
                        }
                        let ok = res.is_ok();
                        if ok {
                            md.failures = 0;
                        } else {
                            md.failures = md.failures.saturating_add(1);
                        }
                        // the tail events of the check: Schedule then Proto
                        let sched_ev = c.events.iter().rev().find_map(|(_, e)| if let EventRec::Schedule(s) = e { Some(s.clone()) } else { None });
                        let proto_ev = c.events.iter().rev().find_map(|(_, e)| if let EventRec::Proto(s) = e { Some(s.clone()) } else { None });
                        m.count("R1.checks");
                        if let Some(tc) = truth_contact {
                            if tc != contact {
                                // the result disagrees with ground truth; C04 reports that. Follow ground truth here.
                            }
                        }
                        let contact = truth_contact.unwrap_or(contact);
                        if let Some(s) = &sched_ev {
                            if contact {
                                m.count("R1.contact");
                                let cands: Vec<TimeRec> = clock_reads
                                    .iter()
                                    .filter(|(j, _, _)| *j > c.start && *j < i)
                                    .map(|(_, w, mo)| TimeRec { wall: Some(*w), mono: Some(*mo) })
                                    .collect();
                                match &s.last_update_time {
                                    Some(t) if cands.contains(t) => md.last = Some(t.clone()),
                                    other => {
                                        m.viol(p, "R1", &site, format!("after a check that reached the server ({}) the announced last-contact time is {:?}, not a clock reading taken during the check", sig, other));
                                        md.last = other.clone();
                                    }
                                }
                            } else {
                                m.count("R1.no_contact");
                                if s.last_update_time != md.last {
                                    m.viol(p, "R1", &site, format!("a check without an answer from the server ({}) changed the last-contact time from {:?} to {:?}", sig, md.last, s.last_update_time));
                                    md.last = s.last_update_time.clone();
                                }
                            }
                        }
                        if let Some(pv) = &proto_ev {
                            if pv.failures != md.failures {
                                m.viol(p, "R1", &site, format!("announced {} consecutive failures after {}, the history has {}", pv.failures, sig, md.failures));
                                md.failures = pv.failures;
                            }
                            md.poll = pv.poll_ns;
                        }
                    }
                    last_commit_after_result = None;
                    for (dsite, t, prevp, then, next_poll) in deferred.drain(..) {
                        if let (Some(md), false) = (&model, resync) {
                            let cur = stored_form(md);
                            let pair_ok = t.failures == cur.failures && t.last == cur.last;
                            let poll_ok = t.poll == cur.poll || Some(t.poll) == prevp.as_ref().map(|p| p.poll) || t.poll == then.poll || Some(t.poll) == next_poll;
                            if !(pair_ok && poll_ok) {
                                m.viol(p, "R3", &dsite, format!("committed state presents {:?}: neither the previous commit {:?}, nor the values current then {:?}, nor those the check ended with {:?}", t, prevp, then, cur));
                            }
                        }
                    }
                }
                Kind::Event(EventRec::State(StateRec::Idle)) | Kind::Event(EventRec::State(StateRec::WaitingForReboot)) | Kind::StreamEnd => {
                    // R2: once a check is finished its values are committed
                    if let Some(c) = checks.iter().find(|c| c.end == i && c.complete) {
                        let _ = c;
                        if let (Some(md), false) = (&model, resync) {
                            m.count("R2.finished_checks");
                            // (whether the commit was made before or after the result was announced is
                            // not prescribed: once the machine is idle again storage must present the values)
                            let _ = last_commit_after_result;
                            let want = stored_form(md);
                            if prev_probe.as_ref() != Some(&want) {
                                m.viol(p, "R2", &site, format!("the check is finished and the machine idle again: the committed state presents {:?}, expected {:?}", prev_probe, want));
                            }
                        }
                    }
                }
                Kind::HttpSend { id, kind: ReqKind::Ping, .. } => {
                    pending_ping = xs.iter().position(|x| x.id == *id);
                }
                Kind::HttpDeliver { id, .. } => {
                    if let Some(pi) = pending_ping {
                        if xs[pi].id == *id {
                            pending_ping = None;
                            let x = &xs[pi];
                            let success: Option<bool> = match &x.result {
                                Some(Err(_)) => Some(false),
                                Some(Ok(r)) => {
                                    if !seg::accepted_by_cup(l.cup, r) || !seg::is_2xx(r.status) {
                                        Some(false)
                                    } else {
                                        r.grammatical
                                    }
                                }
                                None => None,
                            };
                            m.count("R1.pings");
                            m.sig(format!("ping|{:?}", success));
                            if let Some(md) = &mut model {
                                pre_step = Some((md.failures, md.last.clone()));
                                match success {
                                    Some(true) => {
                                        md.failures = 0;
                                        // last contact: the clock reading taken right after; adopt from the
                                        // ScheduleChange that follows, but require it to be a reading after delivery
                                        let mut adopted = false;
                                        for j in i + 1..l.end {
                                            match &h[j].kind {
                                                Kind::Event(EventRec::Schedule(s)) => {
                                                    let cands: Vec<TimeRec> = clock_reads.iter().map(|(_, w, mo)| TimeRec { wall: Some(*w), mono: Some(*mo) }).collect();
                                                    let _ = cands;
                                                    let ok = match &s.last_update_time {
                                                        Some(TimeRec { wall: Some(w), mono: Some(mo) }) => h[i..j].iter().any(|r| matches!(&r.kind, Kind::ClockRead{wall: w2, mono: m2, which} if which=="both" && w2==w && m2==mo)),
                                                        _ => false,
                                                    };
                                                    if !ok {
                                                        m.viol(p, "R1", &site, format!("after a successful ping the announced last-contact time {:?} is not a clock reading taken after the answer", s.last_update_time));
                                                    }
                                                    md.last = s.last_update_time.clone();
                                                    adopted = true;
                                                    break;
                                                }
                                                Kind::Policy(_) | Kind::HttpSend { .. } => break,
                                                _ => {}
                                            }
                                        }
                                        if !adopted {
                                            resync = true;
                                        }
                                    }
                                    Some(false) => md.failures = md.failures.saturating_add(1),
                                    None => resync = true,
                                }
                            }
                        }
                    }
                }
                _ => {}
            }
        }
    }
    if m.sample.is_none() {
        if let Some(s) = m.sigs.first() {
            m.sample = Some(serde_json::json!({ "check_or_ping_outcome": s }));
        }
    }
    m
}
