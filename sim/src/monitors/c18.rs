//! C18 — update-attempt bookkeeping spans attempts and reboots.

use crate::exec::RunOut;
use crate::hist::*;
use crate::mon::*;
use crate::seg;

#[derive(Clone, Debug)]
struct Pending {
    finish_wall: i128,
    target: Option<String>,
    /// the install's life; the report belongs to a later life
    life: u32,
    /// durability uncertain (crash between the install's end and the reboot question)
    uncertain: bool,
    reports: u32,
}

pub fn monitor(out: &RunOut) -> MonOut {
    run(out, "C18", 1000)
}

/// `tol`: tolerance (ns) when comparing durations derived from stored times. C18 uses 1 us
/// (it is not about rounding); C19 uses 0 and models truncation toward the epoch exactly.
pub fn run(out: &RunOut, p: &str, tol: u128) -> MonOut {
    let mut m = MonOut::default();
    let h = &out.hist;
    // ---- model carried across lifetimes
    let mut first_seen: Option<(String, i128, bool)> = None; // plan id, wall ns, certain
    let mut first_seen_from_storage; // this attempt read the time back (microsecond precision)
    let mut failed_installs: Option<u64> = Some(0); // committed consecutive failed install attempts; None = unknown
    let mut pending: Option<Pending> = None;
    // the record on storage is not determined by what we saw (system app not part of an update)
    let mut pending_unknown = false;
    let lives = seg::lives(h);
    for (li, l) in lives.iter().enumerate() {
        if !l.started {
            continue;
        }
        if li == 0 {
            if let Kind::DiskCommitted { map } = &h[l.start + 1].kind {
                if !map.is_empty() {
                    // pre-existing storage: start from unknown
                    failed_installs = None;
                    first_seen = None;
                }
            }
        }
        let sys_id = l.presets.get(l.system_idx).map(|a| a.id.clone()).unwrap_or_default();
        let (checks, reboot_waits) = seg::checks(h, l);
        // ---- R3: waited-for-reboot report at the start of this life
        let start_wall: Option<i128> = (l.start..l.end).find_map(|i| match &h[i].kind {
            Kind::ClockRead { which, wall, .. } if which == "mono" => Some(*wall),
            _ => None,
        });
        let reports: Vec<(usize, u128)> = (l.start..l.end)
            .filter_map(|i| if let Kind::Metric(MetricRec::WaitedForRebootDuration(d)) = &h[i].kind { Some((i, *d)) } else { None })
            .collect();
        let mut clear_pending = false;
        match &mut pending {
            _ if pending_unknown => {}
            Some(pd) if pd.life < l.life => {
                let on_target = pd.target.as_deref() == Some(l.os_version.as_str());
                m.sig(format!("restart|on_target={on_target}|uncertain={}|reports={}", pd.uncertain, reports.len()));
                if on_target {
                    // The machine tries at the top of every trip round its main loop (right before it
                    // asks the policy for the next check time) until the report succeeds: it needs a
                    // wall clock at or past the recorded finish time and reports
                    // (wall now - finish) - (monotonic now - monotonic at the machine's start).
                    // Which clock reading of a trip is the loop-top one is not visible from outside, so
                    // a report must match SOME reading of its trip, and a trip without a report is a
                    // violation only if EVERY reading of that trip allowed one.
                    let start_mono: Option<i64> = (l.start..l.end).find_map(|i| match &h[i].kind {
                        Kind::ClockRead { which, mono, .. } if which == "mono" => Some(*mono),
                        _ => None,
                    });
                    if let (Some(_sw), Some(sm)) = (start_wall, start_mono) {
                        m.count("R3.restarts_on_target_version");
                        let fin = (pd.finish_wall / 1000) * 1000;
                        let f = |wall: i128, mono: i64| -> Option<u128> {
                            let dw = wall - fin;
                            let dm = mono as i128 - sm as i128;
                            if dw < 0 || dm < 0 || dw < dm {
                                None
                            } else {
                                Some((dw - dm) as u128)
                            }
                        };
                        // (the reboot wait asks the policy for the next time as well: not a trip of the main loop)
                        let nexts: Vec<usize> = (l.start..l.end)
                            .filter(|i| matches!(h[*i].kind, Kind::Policy(PolicyRec::ComputeNext { .. })) && !reboot_waits.iter().any(|rw| rw.start <= *i && *i < rw.end))
                            .collect();
                        let mut lo = l.start;
                        let mut reported_here = 0u32;
                        let mut windows: Vec<(usize, usize, bool)> = nexts.iter().map(|j| (0, *j, true)).collect();
                        for w in windows.iter_mut() {
                            w.0 = lo;
                            lo = w.1;
                        }
                        // the tail after the last policy question (a life cut there): reports count, absence is not judged
                        windows.push((lo, l.end, false));
                        for (k, (a, b, complete)) in windows.iter().enumerate() {
                            let in_win: Vec<&(usize, u128)> = reports.iter().filter(|(i, _)| *i > *a && *i < *b).collect();
                            let upto = in_win.first().map(|r| r.0).unwrap_or(*b);
                            let reads: Vec<(i128, i64)> = (*a..upto).filter_map(|i| match &h[i].kind {
                                Kind::ClockRead { which, wall, mono } if which == "both" => Some((*wall, *mono)),
                                _ => None,
                            }).collect();
                            if reported_here + pd.reports > 0 && in_win.is_empty() {
                                continue;
                            }
                            for (n, (i, d)) in in_win.iter().enumerate() {
                                if reported_here > 0 || n > 0 {
                                    m.viol(p, "R3", format!("L{}@{}", l.life, i), "waited-for-reboot duration reported more than once in one lifetime".to_string());
                                    continue;
                                }
                                m.count("R3.reports_checked");
                                if k > 0 {
                                    m.count("R3.reports_on_a_later_trip");
                                }
                                let wants: Vec<u128> = reads.iter().filter_map(|(w, mo)| f(*w, *mo)).collect();
                                if wants.is_empty() {
                                    m.viol(p, "R3", format!("L{}", l.life), "waited-for-reboot duration reported although the finish time is later than now".to_string());
                                } else if !wants.iter().any(|want| (if *d > *want { *d - *want } else { *want - *d }) <= tol) {
                                    m.viol(p, "R3", format!("L{}@{}", l.life, i), format!("waited-for-reboot duration {} ns, expected finish -> start of this machine = {} ns", d, wants[0]));
                                }
                            }
                            if in_win.is_empty() && *complete && reported_here == 0 && pd.reports == 0 && !pd.uncertain {
                                if !reads.is_empty() && reads.iter().all(|(w, mo)| f(*w, *mo).is_some()) {
                                    if k == 0 {
                                        m.viol(p, "R3", format!("L{}", l.life), format!("the machine started on the target version {:?} after a finished install but reported no waited-for-reboot duration", pd.target));
                                    } else {
                                        m.viol(p, "R3", format!("L{}", l.life), format!("the clocks allowed the waited-for-reboot report on trip {} of the main loop but it was not retried", k + 1));
                                    }
                                    // one alarm per lifetime
                                    reported_here += 1;
                                } else if k > 0 {
                                    m.count("R3.trips_where_the_report_was_not_possible");
                                }
                            }
                            reported_here += in_win.len() as u32;
                        }
                        let had = pd.reports;
                        pd.reports += reports.len() as u32;
                        if had > 0 && !reports.is_empty() {
                            // reported in an earlier lifetime already
                            let prev_cut = lives[..li].iter().rev().find(|x| x.started).map(|x| x.end_why.clone()).unwrap_or_default();
                            m.viol(
                                p,
                                "R3",
                                format!("double-report-after-{}-between-report-and-clear", prev_cut),
                                "waited-for-reboot duration reported again by a later lifetime (the record was not cleared)".to_string(),
                            );
                        }
                        // cleared once reported and the life went on to its next policy question
                        if let Some((ri, _)) = reports.first() {
                            if nexts.iter().any(|j| j > ri) {
                                clear_pending = true;
                            }
                        }
                    }
                } else {
                    m.count("R3.restarts_on_other_version");
                    if !reports.is_empty() && !pd.uncertain {
                        m.viol(p, "R3", format!("L{}@{}", l.life, reports[0].0), format!("waited-for-reboot duration reported on version {:?}, the target version is {:?}", l.os_version, pd.target));
                    }
                }
            }
            _ => {
                if !reports.is_empty() && li > 0 && pending.is_none() {
                    // nothing pending that we know of: only judged when storage history is known
                    if failed_installs.is_some() {
                        m.viol(p, "R3", format!("L{}@{}", l.life, reports[0].0), "waited-for-reboot duration reported although no finished install is on record".to_string());
                    }
                }
            }
        }
        if clear_pending {
            pending = None;
        }
        // ---- walk the checks of this life
        for c in &checks {
            let site = format!("L{}@{}", c.life, c.start);
            let mut plan: Option<String> = None;
            let mut start_wall_read: Option<i128> = None;
            let mut finish_wall_read: Option<i128> = None;
            let mut done: Option<Vec<InstallRes>> = None;
            let mut approved = false;
            let mut perform = false;
            let mut reboot_q = false;
            let mut offered: Vec<String> = vec![];
            let mut sys_target: Option<Option<String>> = None; // Some(None): system app offered without version
            // a failed write of the first-seen time (partial storage fault) must be followed by the
            // removal of the plan id written just before it, or the next attempt of this plan would
            // inherit whatever first-seen time is still on storage
            let mut fs_write_failed: Option<usize> = None;
            let mut rolled_back = false;
            // the first-seen time as the library stored it in this attempt (microseconds), and whether
            // a commit followed: which of its clock readings the library uses, and when it records the
            // plan, is its business - the stored value must be a reading of this attempt
            let mut fs_set: Option<(usize, i64)> = None;
            let mut fs_committed = false;
            let mut wall_reads: Vec<(usize, i128)> = vec![];
            for i in c.start..c.end {
                match &h[i].kind {
                    Kind::Disk { op: DiskOp::Set(DiskVal::I(v)), key, ok: true, .. } if key == "update_first_seen_time" => {
                        fs_set = Some((i, *v));
                        fs_committed = false;
                    }
                    Kind::Disk { op: DiskOp::Commit, ok: true, .. } if fs_set.is_some() => fs_committed = true,
                    Kind::Disk { op: DiskOp::Set(_), key, ok: false, .. } if key == "update_first_seen_time" => fs_write_failed = Some(i),
                    Kind::Disk { op: DiskOp::Remove, key, ok: true, .. } if key == "install_plan_id" && fs_write_failed.is_some() => rolled_back = true,
                    Kind::Installer(InstallerRec::CreatePlan { result: Ok(id), response, offered: off, .. }) => {
                        plan = Some(id.clone());
                        offered = off.clone();
                        for a in response.get("app").and_then(|a| a.as_array()).into_iter().flatten() {
                            if str_field(a, "appid").as_deref() == Some(sys_id.as_str()) && off.contains(&sys_id) {
                                sys_target = Some(manifest_version(a));
                            }
                        }
                    }
                    Kind::Policy(PolicyRec::CanStart { answer, .. }) => approved = *answer == UpdateDecisionRec::Ok,
                    Kind::ClockRead { which, wall, .. } if (which == "wall" || which == "both") && !approved => wall_reads.push((i, *wall)),
                    Kind::ClockRead { which, wall, .. } if which == "both" && approved => wall_reads.push((i, *wall)),
                    Kind::ClockRead { which, wall, .. } if which == "wall" && approved => {
                        wall_reads.push((i, *wall));
                        if start_wall_read.is_none() {
                            start_wall_read = Some(*wall);
                        } else if done.is_some() && finish_wall_read.is_none() {
                            finish_wall_read = Some(*wall);
                        }
                    }
                    Kind::Installer(InstallerRec::PerformInstall { .. }) => perform = true,
                    Kind::Installer(InstallerRec::InstallDone { results, .. }) => done = Some(results.clone()),
                    Kind::Policy(PolicyRec::RebootNeeded { .. }) => reboot_q = true,
                    _ => {}
                }
            }
            let _ = offered;
            let plan = match plan {
                Some(p) if approved => p,
                _ => continue,
            };
            // first-seen model: a new plan's record is durable once the install was started (the
            // commit precedes it); an attempt cut before that leaves the previous record in place
            first_seen_from_storage = false;
            let mut recorded = perform;
            if let Some((si, v)) = fs_set {
                m.count("R1.first_seen_records_written");
                let us = |w: i128| -> i128 { if w >= 0 { w / 1000 } else { -((-w) / 1000) } };
                match wall_reads.iter().rev().find(|(j, w)| *j < si && us(*w) == v as i128) {
                    Some((_, w)) => start_wall_read = Some(*w),
                    None => m.viol(p, "R1", format!("L{}@{}", c.life, si), format!("the first-seen time written for plan {plan} ({v} us) is not a wall-clock reading taken in this attempt")),
                }
                recorded = fs_committed;
            }
            if let Some(sw) = start_wall_read {
                let same = matches!(&first_seen, Some((id, _, _)) if *id == plan);
                first_seen_from_storage = same;
                let perform = recorded;
                if !same && perform {
                    first_seen = Some((plan.clone(), sw, true));
                }
                if !same && !perform {
                    // cut before the record was made: nothing changes
                    continue;
                }
            }
            let forget_record = if let Some(i) = fs_write_failed {
                m.count("R1.first_seen_write_failed");
                if perform && !rolled_back {
                    m.viol(p, "R1", format!("L{}@{}", c.life, i), format!("the first-seen time of plan {plan} could not be written but the plan id written before it was left on storage"));
                }
                true
            } else {
                false
            };
            let results = match &done {
                Some(r) => r.clone(),
                None => {
                    // attempt cut (crash): bookkeeping of this attempt may or may not have been recorded
                    if forget_record {
                        first_seen = None;
                    }
                    continue;
                }
            };
            let any_failed = results.iter().any(|r| *r == InstallRes::Failed);
            let any_installed = results.iter().any(|r| *r == InstallRes::Installed);
            m.count("R1.installs");
            m.sig(format!("install|failed={any_failed}|installed={any_installed}|sys_offered={}", sys_target.is_some()));
            // R1: first-seen duration on success
            let fs_metric: Vec<u128> = (c.start..c.end)
                .filter_map(|i| if let Kind::Metric(MetricRec::SuccessfulUpdateFromFirstSeen(d)) = &h[i].kind { Some(*d) } else { None })
                .collect();
            if !c.complete {
                // the metrics of this attempt were cut off
            } else if !any_failed {
                if let (Some(fw), Some((_, fs, certain))) = (finish_wall_read, first_seen.clone()) {
                    if certain && li == 0 || certain {
                        // a first-seen time read back from storage has microsecond precision; one that
                        // could not be stored (outside the i64 microsecond range) is absent there, and
                        // the attempt then counts from its own start
                        let fs = if !first_seen_from_storage {
                            fs
                        } else if super::common::fits_i64_us(fs) {
                            (fs / 1000) * 1000
                        } else {
                            m.count("R1.first_seen_time_not_storable");
                            start_wall_read.unwrap_or(fs)
                        };
                        if fw >= fs {
                            m.count("R1.first_seen_durations");
                            let want = (fw - fs) as u128;
                            match fs_metric.as_slice() {
                                [d] => {
                                    let diff = if *d > want { *d - want } else { want - *d };
                                    if diff > tol {
                                        m.viol(p, "R1", &site, format!("time from first seen to success reported as {} ns, the update (plan {plan}) was first seen {} ns before it finished", d, want));
                                    }
                                }
                                other => m.viol(p, "R1", &site, format!("{} first-seen duration metrics for one successful install", other.len())),
                            }
                        }
                    }
                }
            } else if !fs_metric.is_empty() {
                m.viol(p, "R1", &site, "first-seen-to-success duration reported for an install with a failed app".to_string());
            }
            if forget_record {
                // rolled back: no plan is on record for the next attempt
                first_seen = None;
            }
            // R2: attempts to successful install (completed checks only)
            if c.complete {
                let att: Vec<(u64, bool)> = (c.start..c.end)
                    .filter_map(|i| if let Kind::Metric(MetricRec::AttemptsToSuccessfulInstall { count, successful }) = &h[i].kind { Some((*count, *successful)) } else { None })
                    .collect();
                m.count("R2.completed_installs");
                if any_failed {
                    match (att.as_slice(), failed_installs) {
                        ([(cnt, false)], Some(f)) => {
                            if *cnt != f + 1 {
                                m.viol(p, "R2", &site, format!("failed install reported as attempt {cnt}, {f} consecutive failed attempts are on record"));
                            }
                        }
                        ([(_, false)], None) => {}
                        (other, _) => m.viol(p, "R2", &site, format!("failed install: attempts metric {:?}", other)),
                    }
                    failed_installs = failed_installs.map(|f| f + 1).or(att.first().map(|a| a.0));
                } else if any_installed {
                    match (att.as_slice(), failed_installs) {
                        ([(cnt, true)], Some(f)) => {
                            if *cnt != f + 1 {
                                m.viol(p, "R2", &site, format!("successful install reported as attempt {cnt}, {f} consecutive failed attempts are on record"));
                            }
                        }
                        ([(_, true)], None) => {}
                        (other, _) => m.viol(p, "R2", &site, format!("successful install: attempts metric {:?}", other)),
                    }
                    failed_installs = Some(0);
                } else if !att.is_empty() {
                    m.viol(p, "R2", &site, format!("install with neither failure nor installed app reported attempts {:?}", att));
                }
            } else {
                // an attempt cut by a crash may count or not
                failed_installs = None;
            }
            // R3 bookkeeping: an install with no failed app leaves a record for the next boot
            if !any_failed {
                if let Some(fw) = finish_wall_read {
                    if !super::common::fits_i64_us(fw) {
                        // the finish time cannot be stored: the key is removed, so there is no record
                        // and nothing to report later (unknown only if the attempt was cut before its commit)
                        pending = None;
                        pending_unknown = !reboot_q;
                        m.count("R3.finish_time_not_storable");
                    } else if let Some(t) = sys_target.clone() {
                        if reboot_q {
                            pending = Some(Pending { finish_wall: fw, target: t.or(Some("UNKNOWN".into())), life: l.life, uncertain: false, reports: 0 });
                            pending_unknown = false;
                        } else {
                            // cut between the install's end and the reboot question: whether this
                            // install's record or the previous one is on storage is not determined
                            pending_unknown = true;
                        }
                    } else {
                        pending_unknown = true;
                        // system app not part of this update: which version string is on record is not
                        // determined by this install; not judged
                        pending = None;
                    }
                }
            }
        }
    }
    if m.sample.is_none() {
        if let Some(s) = m.sigs.first() {
            m.sample = Some(serde_json::json!({ "case": s }));
        }
    }
    m
}
