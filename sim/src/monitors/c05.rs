//! C05 — policy consent gates every network, install and reboot action.

use crate::exec::RunOut;
use crate::hist::*;
use crate::mon::*;
use crate::seg;
use serde_json::Value;

fn invalid(a: &AppRec) -> bool {
    a.id.is_empty() || a.version == "0.0.0.0"
}

pub fn monitor(out: &RunOut) -> MonOut {
    let mut m = MonOut::default();
    let p = "C05";
    let h = &out.hist;
    for l in seg::lives(h) {
        if !l.started || !l.mode_start {
            continue;
        }
        // R3: never starts with an invalid app
        if l.presets.iter().any(invalid) {
            m.count("R3.invalid_app_set");
            m.sig("invalid-app".to_string());
            for i in l.start..l.end {
                match &h[i].kind {
                    Kind::Policy(_) | Kind::HttpSend { .. } | Kind::TimerArm { .. } | Kind::Event(_) | Kind::Installer(_) => {
                        m.viol(p, "R3", format!("L{}@{}", l.life, i), "the state machine acted although an app has an empty id or version 0".to_string());
                        break;
                    }
                    _ => {}
                }
            }
            continue;
        }
        let (checks, waits) = seg::checks(h, &l);
        // R1: every request lies inside an allowed check (update checks, event reports) or a reboot wait (pings)
        for i in l.start..l.end {
            if let Kind::HttpSend { kind, .. } = &h[i].kind {
                m.count("R1.requests");
                let in_check = checks.iter().any(|c| i > c.start && i < c.end);
                let in_wait = waits.iter().any(|w| i > w.start && i < w.end);
                let ok = match kind {
                    ReqKind::Ping => in_wait,
                    _ => in_check,
                };
                if !ok {
                    m.viol(p, "R1", format!("L{}@{}", l.life, i), format!("a {:?} request was sent outside any check the policy allowed", kind));
                }
            }
        }
        // after a negative answer nothing is sent until the next positive one: implied by R1, counted here
        for i in l.start..l.end {
            if let Kind::Policy(PolicyRec::CheckAllowed { answer, .. }) = &h[i].kind {
                if answer.params().is_none() {
                    m.count("R1.negative_decisions");
                    m.sig(format!("neg:{:?}", answer));
                }
            }
        }
        for c in &checks {
            let site = format!("L{}@{}", c.life, c.start);
            let params = match &c.params {
                Some(p) => p.clone(),
                None => continue,
            };
            m.sig(format!("params:{:?}", params));
            // R2: every request of the check carries the policy's parameters
            for x in seg::exchanges(h, c.start, c.end) {
                m.count("R2.requests_in_check");
                let req = x.body_json.as_ref().and_then(|b| b.get("request"));
                let isrc = req.and_then(|r| r.get("installsource")).and_then(|s| s.as_str()).unwrap_or("");
                let want_src = if params.source == Src::OnDemand { "ondemand" } else { "scheduledtask" };
                if isrc != want_src {
                    m.viol(p, "R2", &site, format!("{:?} request carries installsource {:?}, the policy returned {:?}", x.kind, isrc, params.source));
                }
                let inter = x.headers.iter().find(|(k, _)| k.eq_ignore_ascii_case("x-goog-update-interactivity")).map(|(_, v)| v.as_str()).unwrap_or("");
                let want_i = if params.source == Src::OnDemand { "fg" } else { "bg" };
                if inter != want_i {
                    m.viol(p, "R2", &site, format!("{:?} request carries interactivity {:?}, the policy returned {:?}", x.kind, inter, params.source));
                }
                if x.kind == ReqKind::UpdateCheck {
                    for a in x.apps() {
                        let uc = a.get("updatecheck").cloned().unwrap_or(Value::Null);
                        let dis = uc.get("updatedisabled").and_then(|v| v.as_bool()).unwrap_or(false);
                        let same = uc.get("sameversionupdate").and_then(|v| v.as_bool()).unwrap_or(false);
                        if dis != params.disable_updates || same != params.same_version {
                            m.viol(p, "R2", &site, format!("update check carries updatedisabled={dis} sameversionupdate={same}, the policy returned {:?}", params));
                        }
                    }
                }
            }
            // R4: installer only after the policy approved that plan
            let mut approved: Option<String> = None;
            let mut refused = false;
            for i in c.start..c.end {
                match &h[i].kind {
                    Kind::Policy(PolicyRec::CanStart { plan, answer }) => {
                        m.count("R4.install_decisions");
                        if *answer == UpdateDecisionRec::Ok {
                            approved = Some(plan.clone());
                        } else {
                            refused = true;
                            approved = None;
                        }
                    }
                    Kind::Installer(InstallerRec::PerformInstall { plan }) => {
                        if approved.as_ref() != Some(plan) || refused {
                            m.viol(p, "R4", &site, format!("install of plan {plan} started without the policy's approval of that plan"));
                        }
                    }
                    _ => {}
                }
            }
        }
        // control requests of this life: (invoke idx, reply idx, source)
        let mut reqs: Vec<(usize, Option<usize>, Src)> = vec![];
        {
            let mut open: std::collections::BTreeMap<(u32, u32), usize> = std::collections::BTreeMap::new();
            for i in l.start..l.end {
                match &h[i].kind {
                    Kind::CtlInvoke { client, req, source } => {
                        open.insert((*client, *req), reqs.len());
                        reqs.push((i, None, *source));
                    }
                    Kind::CtlReply { client, req, .. } => {
                        if let Some(k) = open.remove(&(*client, *req)) {
                            reqs[k].1 = Some(i);
                        }
                    }
                    _ => {}
                }
            }
        }
        // R5: reboot only after an install with no failed app, reboot needed, and most recent "may I reboot" = yes
        let mut last_install_ok: Option<bool> = None;
        let mut needed: Option<bool> = None;
        let mut last_allowed: Option<bool> = None;
        let mut own_ondemand = false;
        let mut busy_start = l.start;
        for i in l.start..l.end {
            match &h[i].kind {
                Kind::Policy(PolicyRec::CheckAllowed { answer, source, .. }) => {
                    if answer.params().is_some() {
                        busy_start = i;
                        own_ondemand = *source == Src::OnDemand;
                        last_install_ok = None;
                        needed = None;
                        last_allowed = None;
                    }
                }
                Kind::Installer(InstallerRec::InstallDone { results, .. }) => {
                    last_install_ok = Some(results.iter().all(|r| *r != InstallRes::Failed));
                    needed = None;
                    last_allowed = None;
                }
                Kind::Policy(PolicyRec::RebootNeeded { answer, .. }) => needed = Some(*answer),
                Kind::Policy(PolicyRec::RebootAllowed { answer, source, .. }) => {
                    last_allowed = Some(*answer);
                    m.count("R6.reboot_questions");
                    if *source == Src::OnDemand {
                        m.count("R6.on_demand_reboot_questions");
                        // an on-demand request that was pending at some time during this check / wait
                        let by_request = reqs.iter().any(|(inv, rep, src)| *src == Src::OnDemand && *inv < i && rep.map(|r| r > busy_start).unwrap_or(true));
                        if !own_ondemand && !by_request {
                            m.viol(p, "R6", format!("L{}@{}", l.life, i), "reboot question asked as on-demand although neither the check's options nor any request during it were on-demand".to_string());
                        }
                    }
                }
                Kind::Installer(InstallerRec::Reboot { .. }) => {
                    m.count("R5.reboots");
                    if last_install_ok != Some(true) || needed != Some(true) || last_allowed != Some(true) {
                        m.viol(
                            p,
                            "R5",
                            format!("L{}@{}", l.life, i),
                            format!("reboot performed with install_ok={:?} reboot_needed={:?} last reboot_allowed={:?}", last_install_ok, needed, last_allowed),
                        );
                    }
                }
                _ => {}
            }
        }
    }
    if m.sample.is_none() {
        if let Some(s) = m.sigs.first() {
            m.sample = Some(serde_json::json!({ "case": s }));
        }
    }
    m
}
