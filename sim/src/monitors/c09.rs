//! C09 — cohort and user-counting data follow the server and persist.

use super::c04::uc_truth;
use crate::exec::RunOut;
use crate::hist::*;
use crate::mon::*;
use crate::seg;
use serde_json::Value;

#[derive(Clone, Debug, PartialEq)]
struct AppState {
    id: String,
    cohort: Option<String>,
    hint: Option<String>,
    name: Option<String>,
    uc: Option<u32>,
}

fn from_rec(a: &AppRec) -> AppState {
    AppState { id: a.id.clone(), cohort: a.cohort.clone(), hint: a.cohorthint.clone(), name: a.cohortname.clone(), uc: a.uc }
}

fn apply_doc(model: &mut [AppState], doc: &Value) {
    let days = doc_elapsed_days(doc);
    let apps = doc_apps(doc);
    for a in model.iter_mut() {
        // the first response app with this id
        if let Some(r) = apps.iter().find(|r| str_field(r, "appid").as_deref() == Some(a.id.as_str())) {
            if let Some(v) = str_field(r, "cohort") {
                a.cohort = Some(v);
            }
            if let Some(v) = str_field(r, "cohorthint") {
                a.hint = Some(v);
            }
            if let Some(v) = str_field(r, "cohortname") {
                a.name = Some(v);
            }
            a.uc = days;
        }
    }
}

/// what a machine restarted with `presets` on storage holding `rec` shows
fn restored(presets: &[AppRec], rec: &[AppState]) -> Vec<AppState> {
    presets
        .iter()
        .zip(rec.iter())
        .map(|(p, r)| AppState {
            id: p.id.clone(),
            cohort: p.cohort.clone().or(r.cohort.clone()),
            hint: p.cohorthint.clone().or(r.hint.clone()),
            name: p.cohortname.clone().or(r.name.clone()),
            uc: p.uc.or(r.uc),
        })
        .collect()
}

fn unique_ids(doc: &Value) -> bool {
    let mut ids: Vec<String> = doc_apps(doc).iter().filter_map(|a| str_field(a, "appid")).collect();
    let n = ids.len();
    ids.sort();
    ids.dedup();
    ids.len() == n
}

pub fn monitor(out: &RunOut) -> MonOut {
    let mut m = MonOut::default();
    let p = "C09";
    let h = &out.hist;
    for l in seg::lives(h) {
        if !l.started {
            continue;
        }
        let (checks, _waits) = seg::checks(h, &l);
        let xs = seg::exchanges(h, l.start, l.end);
        let mut model: Option<Vec<AppState>> = None;
        let mut resync = false;
        let mut committed_model: Option<Vec<AppState>> = None; // record as of the last commit that matched
        let mut first_probe_seen = false;
        // last-contact time of the previous commit (a probe restart of it)
        let mut prev_probe_last: Option<Option<TimeRec>> = None;
        let mut pending_ping: Option<usize> = None;
        // a successful ping happened at this index: its values must be committed before the next wait
        let mut ping_commit_due: Option<usize> = None;
        // the embedder changed an app's data while a check was under way: the requests of that
        // check still carry what was captured when it began
        let mut skip_r1 = false;
        // records as they were right before each change by the embedder since the last commit
        let mut since_commit: Vec<Vec<AppState>> = vec![];
        let mut presets_touched = false;
        // the result of a complete check has been announced; its final commit follows
        let mut after_result = false;
        // the most recent delivered response the library may apply to the app set: Some(Some(doc)) a
        // well-formed one, Some(None) one whose content is not known to the oracle
        let mut pending_doc: Option<Option<Value>> = None;
        // what a restart must restore after the successful ping (as of the moment it was applied)
        let mut ping_expected: Option<Vec<AppState>> = None;
        for i in l.start..l.end {
            let r = &h[i];
            let site = format!("L{}@{}", l.life, i);
            match &r.kind {
                Kind::NeighbourMutate { app, hint, .. } => {
                    m.count("R2.embedder_changes_an_app");
                    if let Some(md) = &mut model {
                        // the library may have read the app set for persisting just before this change
                        // and commit just after it: the record as it was counts as a legitimate content
                        since_commit.push(md.clone());
                        if let Some(a) = md.iter_mut().find(|a| a.id == *app) {
                            a.hint = Some(hint.clone());
                        }
                        skip_r1 = true;
                    } else {
                        // before the machine's first policy call: what it shows first is not the bare presets
                        presets_touched = true;
                    }
                }
                Kind::Event(EventRec::State(StateRec::CheckingForUpdates(_))) => {
                    pending_doc = None;
                }
                Kind::AppSetWrite => {
                    // the library writes the apps: it applies the response it has just accepted
                    if let Some(md) = &mut model {
                        match pending_doc.take() {
                            Some(Some(doc)) if unique_ids(&doc) => {
                                m.count("R4.responses_applied");
                                apply_doc(md, &doc);
                                if ping_commit_due.is_some() {
                                    ping_expected = Some(vec![]);
                                }
                            }
                            _ => resync = true,
                        }
                    }
                }
                Kind::Policy(PolicyRec::ComputeNext { apps, .. }) | Kind::Policy(PolicyRec::CheckAllowed { apps, .. }) => {
                    skip_r1 = false;
                    if ping_commit_due.is_some() {
                        // a successful ping whose answer the library has not written to the app set by its
                        // next policy question: the record must show it all the same
                        if let (Some(md), Some(Some(doc))) = (&mut model, pending_doc.take()) {
                            if unique_ids(&doc) {
                                m.count("R4.ping_answer_not_written");
                                apply_doc(md, &doc);
                            } else {
                                resync = true;
                            }
                        }
                    }
                    if let (Some(at), Some(md), false) = (ping_commit_due.take(), &model, resync) {
                        // R3 for pings: a commit must have followed the ping
                        let last_probe: Option<Vec<AppState>> = (at..i).rev().find_map(|j| match &h[j].kind {
                            Kind::Probe { apps, .. } => Some(apps.iter().map(from_rec).collect()),
                            _ => None,
                        });
                        // (a commit after the ping is judged when it is probed, below)
                        let _ = md;
                        if last_probe.is_none() && ping_expected.take().is_some() {
                            m.viol(p, "R3", &site, "after a successful ping nothing was committed to storage".to_string());
                        }
                    }
                    let seen: Vec<AppState> = apps.iter().map(from_rec).collect();
                    match (&mut model, resync) {
                        (None, _) => {
                            // fresh machine on empty storage shows the embedder's presets
                            if let Kind::DiskCommitted { map } = &h[l.start + 1].kind {
                                if map.is_empty() && !presets_touched {
                                    m.count("R3.fresh_presets");
                                    let want: Vec<AppState> = l.presets.iter().map(from_rec).collect();
                                    if want != seen {
                                        m.viol(p, "R3", &site, format!("fresh machine shows {:?}, the embedder configured {:?}", seen, want));
                                    }
                                }
                            }
                            model = Some(seen);
                        }
                        (Some(md), true) => {
                            *md = seen;
                            resync = false;
                        }
                        (Some(md), false) => {
                            m.count("R2.policy_apps");
                            if *md != seen {
                                m.viol(p, "R2", &site, format!("policy sees apps {:?}, the history of responses gives {:?}", seen, md));
                                *md = seen;
                            }
                        }
                    }
                }
                Kind::HttpSend { id, body_json, kind, .. } => {
                    if *kind == ReqKind::Ping {
                        pending_ping = xs.iter().position(|x| x.id == *id);
                    }
                    if let (Some(md), false, Some(b), false) = (&model, resync, body_json, skip_r1) {
                        // R1: the request carries exactly the record's values
                        let apps = b.get("request").and_then(|r| r.get("app")).and_then(|a| a.as_array()).cloned().unwrap_or_default();
                        // event reports inside a check carry the values captured when the check began;
                        // the record only changes at the end of a check, so the current record applies
                        for a in &apps {
                            let id = str_field(a, "appid").unwrap_or_default();
                            if let Some(st) = md.iter().find(|s| s.id == id) {
                                m.count("R1.request_apps");
                                if str_field(a, "cohort") != st.cohort || str_field(a, "cohorthint") != st.hint || str_field(a, "cohortname") != st.name {
                                    m.viol(p, "R1", &site, format!("request for {id} carries cohort ({:?},{:?},{:?}), the record is {:?}", str_field(a, "cohort"), str_field(a, "cohorthint"), str_field(a, "cohortname"), st));
                                }
                                if let Some(pg) = a.get("ping") {
                                    let ad = pg.get("ad").and_then(|x| x.as_u64()).map(|x| x as u32);
                                    let rd = pg.get("rd").and_then(|x| x.as_u64()).map(|x| x as u32);
                                    if ad != st.uc || rd != st.uc {
                                        m.viol(p, "R1", &site, format!("ping for {id} carries ad={:?} rd={:?}, the record's day number is {:?}", ad, rd, st.uc));
                                    }
                                }
                            }
                        }
                    }
                }
                Kind::HttpDeliver { id, .. } => {
                    if let Some(x) = xs.iter().find(|x| x.id == *id && (x.kind == ReqKind::UpdateCheck || x.kind == ReqKind::Ping)) {
                        pending_doc = match &x.result {
                            Some(Ok(r)) if seg::accepted_by_cup(l.cup, r) && seg::is_2xx(r.status) => match (r.grammatical, &r.doc) {
                                (Some(true), Some(doc)) => Some(Some(doc.clone())),
                                (Some(false), _) => None,
                                _ => Some(None),
                            },
                            _ => None,
                        };
                    }
                    if let Some(pi) = pending_ping {
                        if xs[pi].id == *id {
                            pending_ping = None;
                            let x = &xs[pi];
                            if let Some(md) = &mut model {
                                match &x.result {
                                    Some(Ok(r)) if seg::accepted_by_cup(l.cup, r) && seg::is_2xx(r.status) => match (r.grammatical, &r.doc) {
                                        (Some(true), Some(doc)) if unique_ids(doc) => {
                                            m.count("R4.successful_ping");
                                            m.sig(format!("ping|{}", canon(doc).len() % 97));
                                            // (applied when the library writes the app set)
                                            let _ = &md;
                                            ping_commit_due = Some(i);
                                        }
                                        (Some(false), _) => {}
                                        _ => resync = true,
                                    },
                                    _ => {
                                        m.count("R4.failed_ping");
                                    }
                                }
                            }
                        }
                    }
                }
                Kind::Event(EventRec::Result(res)) => {
                    let c = match checks.iter().find(|c| c.result_idx == Some(i)) {
                        Some(c) => c,
                        None => continue,
                    };
                    after_result = c.complete;
                    if let Some(md) = &mut model {
                        let cxs = seg::exchanges(h, c.start, c.end);
                        let truth = uc_truth(c, &cxs);
                        match (res, truth.usable, &truth.doc) {
                            (Ok(_), Some(true), Some(doc)) if unique_ids(doc) => {
                                m.count("R4.successful_check");
                                // (the document was applied when the library wrote the app set; if it
                                // never did, the next policy call shows the difference)
                                if pending_doc.take().is_some() {
                                    apply_doc(md, doc);
                                }
                                let named = doc_apps(doc).len();
                                m.sig(format!("check|apps{}|named{}|{:?}", md.len(), named, doc_elapsed_days(doc).is_some()));
                            }
                            (Err(_), Some(false), _) => {
                                m.count("R4.failed_check");
                            }
                            (Err(ErrRec::InstallPlan), Some(true), _) => {
                                m.count("R4.failed_check");
                            }
                            _ => resync = true,
                        }
                    }
                }
                Kind::Probe { apps, sched, .. } => {
                    let snaps = std::mem::take(&mut since_commit);
                    let before = prev_probe_last.replace(sched.last_update_time.clone());
                    if resync {
                        // what this commit holds is not known to the model: neither is "the previous commit" from here on
                        committed_model = None;
                    }
                    if !first_probe_seen {
                        first_probe_seen = true;
                        continue;
                    }
                    if let (Some(md), false) = (&model, resync) {
                        let seen: Vec<AppState> = apps.iter().map(from_rec).collect();
                        let cur = restored(&l.presets, md);
                        m.count("R3.commits_probed");
                        if after_result {
                            // the check's final commit restores the record as it is now
                            after_result = false;
                            m.count("R3.finished_checks");
                            if seen != cur && !snaps.iter().any(|c| restored(&l.presets, c) == seen) {
                                m.viol(p, "R3", &site, format!("after the finished check a restart would restore {:?}, expected {:?}", seen, cur));
                            }
                        }
                        if ping_commit_due.is_some() && ping_expected.is_some() {
                            // the commit that follows a successful ping holds the record as it is now
                            ping_expected = None;
                            ping_commit_due = None;
                            m.count("R3.successful_pings_committed");
                            if seen != cur && !snaps.iter().any(|c| restored(&l.presets, c) == seen) {
                                m.viol(p, "R3", &site, format!("after a successful ping a restart would restore {:?}, expected {:?}", seen, cur));
                            }
                        }
                        if seen == cur {
                            committed_model = Some(md.clone());
                        } else {
                            let snap_ok = snaps.iter().any(|c| restored(&l.presets, c) == seen);
                            let prev_ok = committed_model.as_ref().map(|c| restored(&l.presets, c) == seen).unwrap_or(true) || snap_ok;
                            if snap_ok {
                                // the record as it was right before a change by the embedder: the library read
                                // the app set before that change and commits after it - a legitimate content
                                // of this commit whatever else it carries; it is what storage holds from now on
                                m.count("R3.commits_with_app_data_read_before_an_embedder_change");
                                if let Some(sn) = snaps.iter().find(|c| restored(&l.presets, c) == seen) {
                                    committed_model = Some(sn.clone());
                                }
                            } else if !prev_ok {
                                m.viol(p, "R3", &site, format!("committed state restores apps {:?}: neither the previous commit nor the current record {:?}", seen, cur));
                            } else if let Some(b) = &before {
                                // the apps are still those of the previous commit: then the check's result
                                // (its last-contact time) must not be in this commit either
                                m.count("R3.commits_with_previous_app_data");
                                if *b != sched.last_update_time {
                                    m.viol(p, "R3", &site, format!("a commit carries the new last-contact time {:?} but still the previous app data {:?} (current record {:?}): result and per-app data are not committed together", sched.last_update_time, seen, cur));
                                }
                            }
                        }
                    }
                }
                Kind::Event(EventRec::State(StateRec::Idle)) | Kind::Event(EventRec::State(StateRec::WaitingForReboot)) | Kind::StreamEnd => {
                    // (the commit that follows a check's result is judged when it is probed)
                    after_result = false;
                }
                _ => {}
            }
        }
    }
    if m.sample.is_none() {
        if let Some(s) = m.sigs.first() {
            m.sample = Some(serde_json::json!({ "case": s }));
        }
    }
    m
}
