//! Reference models shared by several monitors, written from the property statements.

use crate::hist::*;
use crate::seg::{self, Exchange};

/// The server-dictated poll interval a response dictates, per the statement: min(N, 86400) s
/// when the header value is a plain decimal u64 N, absent otherwise. Returns the set of
/// admissible readings (more than one only where the statement is open: a leading '+',
/// differing duplicates).
pub fn retry_after_readings(r: &DeliveredResp) -> Vec<Option<u128>> {
    let vals = seg::header(&r.headers, "x-retry-after");
    if vals.is_empty() {
        return vec![None];
    }
    let mut out: Vec<Option<u128>> = vec![];
    for v in vals {
        let reading = parse_plain_u64(v).map(|n| (n.min(86400) as u128) * 1_000_000_000);
        if !out.contains(&reading) {
            out.push(reading);
        }
        if v.first() == Some(&b'+') {
            if let Some(n) = parse_plain_u64(&v[1..]) {
                let alt = Some((n.min(86400) as u128) * 1_000_000_000);
                if !out.contains(&alt) {
                    out.push(alt);
                }
            }
        }
    }
    out
}

fn parse_plain_u64(v: &[u8]) -> Option<u64> {
    if v.is_empty() || !v.iter().all(|b| b.is_ascii_digit()) {
        return None;
    }
    let mut n: u64 = 0;
    for b in v {
        n = n.checked_mul(10)?.checked_add((*b - b'0') as u64)?;
    }
    Some(n)
}

/// Is this exchange one whose response the client may act on?
pub fn processed(cup: bool, x: &Exchange) -> bool {
    match x.delivered() {
        Some(r) => seg::accepted_by_cup(cup, r),
        None => false,
    }
}

/// body of a request with the request id removed (for "same payload" comparisons)
pub fn body_minus_requestid(x: &Exchange) -> Option<String> {
    let mut b = x.body_json.clone()?;
    if let Some(r) = b.get_mut("request").and_then(|r| r.as_object_mut()) {
        r.remove("requestid");
    }
    Some(canon(&b))
}

/// truncate ns since epoch toward the epoch at microsecond precision
pub fn trunc_us_toward_epoch(ns: i128) -> i128 {
    (ns / 1000) * 1000
}

/// does ns/1000 fit an i64 microsecond count?
pub fn fits_i64_us(ns: i128) -> bool {
    let us = ns / 1000;
    us >= i64::MIN as i128 && us <= i64::MAX as i128
}
