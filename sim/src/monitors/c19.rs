//! C19, in-situ part of the comparison clause: the embedder's timer asks the library's
//! `ComplexTime::is_after_or_eq_any` whether its deadline has been reached, when it is armed
//! and when it fires, at whatever the simulated wall and monotonic clocks read then (the wall
//! clock is stepped forwards and backwards between the two).  The oracle is the simulator's
//! own integer comparison of the recorded nanosecond values.

use crate::exec::RunOut;
use crate::hist::*;
use crate::mon::*;

pub fn run(out: &RunOut, m: &mut MonOut) {
    let p = "C19";
    for r in &out.hist {
        if let Kind::TimerParts { destructure, accessors, .. } = &r.kind {
            m.count("R5.deadline_components_read_both_ways");
            if destructure != accessors {
                m.viol(p, "R5", format!("L{}@{}", r.life, r.seq), format!("a deadline's components through the accessors {accessors:?} differ from destructure {destructure:?}"));
            }
        }
        if let Kind::TimerCmp { phase, now_wall, now_mono, deadline, lib, .. } = &r.kind {
            let wall_reached = deadline.wall.map(|w| *now_wall >= w);
            let mono_reached = deadline.mono.map(|mo| *now_mono >= mo);
            let model = wall_reached.unwrap_or(false) || mono_reached.unwrap_or(false);
            m.count(&format!("R5.compare_at_{phase}"));
            let shape = format!("{}{}", match wall_reached { None => "-", Some(true) => "W", Some(false) => "w" }, match mono_reached { None => "-", Some(true) => "M", Some(false) => "m" });
            m.count(&format!("R5.shape_{shape}"));
            m.sig(format!("cmp:{phase}:{shape}"));
            if *lib != model {
                m.viol(p, "R5", format!("L{}@{}", r.life, r.seq), format!("at {phase}: now (wall {now_wall} ns, mono {now_mono} ns) vs deadline {deadline:?}: the library says reached={lib}, the clocks say {model} (components {shape})"));
            }
        }
    }
}
