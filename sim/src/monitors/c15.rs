//! C15 — requests have exactly the Omaha v3 wire shape (in situ: every request the state
//! machine sends is decoded at the server and compared with an independently written encoder
//! applied to the model state).

use crate::exec::RunOut;
use crate::hist::*;
use crate::mon::*;
use crate::seg::{self, Exchange};
use serde_json::Value;
use std::collections::BTreeSet;

pub fn four_part(v: &[u32]) -> String {
    let mut p = [0u32; 4];
    for (i, x) in v.iter().take(4).enumerate() {
        p[i] = *x;
    }
    format!("{}.{}.{}.{}", p[0], p[1], p[2], p[3])
}

fn is_braced_guid(s: &str) -> bool {
    let b = s.as_bytes();
    if b.len() != 38 || b[0] != b'{' || b[37] != b'}' {
        return false;
    }
    for (i, c) in b[1..37].iter().enumerate() {
        let dash = matches!(i, 8 | 13 | 18 | 23);
        if dash {
            if *c != b'-' {
                return false;
            }
        } else if !(c.is_ascii_digit() || (b'a'..=b'f').contains(c)) {
            return false;
        }
    }
    true
}

fn keys(v: &Value) -> BTreeSet<String> {
    v.as_object().map(|m| m.keys().cloned().collect()).unwrap_or_default()
}

struct Ctx<'a> {
    params: ParamsRec,
    apps: Option<&'a Vec<AppRec>>,
}

pub fn monitor(out: &RunOut) -> MonOut {
    let mut m = MonOut::default();
    let p = "C15";
    let h = &out.hist;
    for l in seg::lives(h) {
        if !l.started {
            continue;
        }
        let (updater_name, updater_version, os) = match &h[l.start].kind {
            Kind::LifeStart { updater_name, updater_version, os, .. } => (updater_name.clone(), updater_version.clone(), os.clone()),
            _ => continue,
        };
        let (checks, _waits) = seg::checks(h, &l);
        let xs: Vec<Exchange> = seg::exchanges(h, l.start, l.end);
        let empty_disk = matches!(&h[l.start + 1].kind, Kind::DiskCommitted { map } if map.is_empty());
        // ids "when set": every request carries the id that was set for it (a retry sets a fresh
        // request id on the same builder; a setter that keeps the first value shows up as a repeat)
        let mut seen_ids: BTreeSet<String> = BTreeSet::new();
        for x in &xs {
            if let Some(rid) = x.request_id() {
                m.count("R2.request_ids");
                if !seen_ids.insert(rid.clone()) {
                    m.viol(p, "R2", format!("L{}@{}", l.life, x.send_idx), format!("request id {rid} used by two requests"));
                }
            }
        }
        for x in &xs {
            let site = format!("L{}@{}", l.life, x.send_idx);
            m.count("requests");
            // ---- context of this request
            let chk = checks.iter().find(|c| x.send_idx > c.start && x.send_idx < c.end);
            let ping_params = ParamsRec { source: Src::Scheduled, use_configured_proxies: true, disable_updates: false, same_version: false };
            let apps_from_policy: Option<&Vec<AppRec>> = {
                // the app list the machine held when the check began / at the latest policy call
                let upto = chk.map(|c| c.start + 1).unwrap_or(x.send_idx);
                (l.start..upto).rev().find_map(|i| match &h[i].kind {
                    Kind::Policy(PolicyRec::CheckAllowed { apps, .. }) | Kind::Policy(PolicyRec::ComputeNext { apps, .. }) => Some(apps),
                    _ => None,
                })
            };
            let ctx = match (x.kind.clone(), chk) {
                (ReqKind::Ping, _) => Ctx { params: ping_params, apps: apps_from_policy },
                (_, Some(c)) => Ctx {
                    params: c.params.clone().unwrap_or(ping_params),
                    apps: if c.mode_start {
                        apps_from_policy
                    } else if empty_disk {
                        Some(&l.presets)
                    } else {
                        None
                    },
                },
                _ => continue,
            };
            // ---- transport level
            if h[x.send_idx].kind_method() != Some("POST") {
                m.viol(p, "R1", &site, "request is not a POST".to_string());
            }
            let hdr = |name: &str| -> Vec<&str> { x.headers.iter().filter(|(k, _)| k.eq_ignore_ascii_case(name)).map(|(_, v)| v.as_str()).collect() };
            if hdr("content-type") != vec!["application/json"] {
                m.viol(p, "R1", &site, format!("content-type header {:?}", hdr("content-type")));
            }
            if hdr("x-goog-update-updater") != vec![updater_name.as_str()] {
                m.viol(p, "R1", &site, format!("updater header {:?}", hdr("x-goog-update-updater")));
            }
            let want_i = if ctx.params.source == Src::OnDemand { "fg" } else { "bg" };
            if hdr("x-goog-update-interactivity") != vec![want_i] {
                m.viol(p, "R1", &site, format!("interactivity header {:?}, source {:?}", hdr("x-goog-update-interactivity"), ctx.params.source));
            }
            let body = match &x.body_json {
                Some(b) => b,
                None => {
                    m.viol(p, "R2", &site, "body is not JSON".to_string());
                    continue;
                }
            };
            if keys(body) != ["request".to_string()].into_iter().collect() {
                m.viol(p, "R2", &site, format!("top-level keys {:?}", keys(body)));
                continue;
            }
            let req = &body["request"];
            let want_keys: BTreeSet<String> = ["protocol", "updater", "updaterversion", "installsource", "ismachine", "requestid", "sessionid", "os", "app"].iter().map(|s| s.to_string()).collect();
            if keys(req) != want_keys {
                m.viol(p, "R2", &site, format!("request keys {:?}", keys(req)));
            }
            let want_src = if ctx.params.source == Src::OnDemand { "ondemand" } else { "scheduledtask" };
            let scalar_ok = req["protocol"] == "3.0"
                && req["updater"] == updater_name.as_str()
                && req["updaterversion"] == four_part(&updater_version).as_str()
                && req["installsource"] == want_src
                && req["ismachine"] == true;
            if !scalar_ok {
                m.viol(p, "R2", &site, format!("request scalars: protocol={} updater={} updaterversion={} installsource={} ismachine={}", req["protocol"], req["updater"], req["updaterversion"], req["installsource"], req["ismachine"]));
            }
            for k in ["requestid", "sessionid"] {
                if !req[k].as_str().map(is_braced_guid).unwrap_or(false) {
                    m.viol(p, "R2", &site, format!("{k} is not a braced GUID: {}", req[k]));
                }
            }
            let want_os = serde_json::json!({"platform": os[0], "version": os[1], "sp": os[2], "arch": os[3]});
            if req["os"] != want_os {
                m.viol(p, "R2", &site, format!("os object {} expected {}", req["os"], want_os));
            }
            let apps = x.apps();
            // first-app-id header
            let first = apps.first().and_then(|a| str_field(a, "appid"));
            let got: Vec<&str> = hdr("x-goog-update-appid");
            match &first {
                Some(f) => {
                    if got != vec![f.as_str()] {
                        m.viol(p, "R1", &site, format!("app-id header {:?}, first app of the request is {:?}", got, f));
                    }
                }
                None => {
                    if !got.is_empty() {
                        m.viol(p, "R1", &site, "app-id header on a request without apps".to_string());
                    }
                }
            }
            // ---- apps
            let state = match ctx.apps {
                Some(s) => s,
                None => continue,
            };
            m.count("requests_with_model_state");
            m.sig(format!("{:?}|apps{}|{:?}", x.kind, apps.len(), ctx.params));
            let ids: Vec<String> = apps.iter().filter_map(|a| str_field(a, "appid")).collect();
            // apps appear once each, in first-insertion order
            let mut state_ids: Vec<String> = vec![];
            for a in state.iter() {
                if !state_ids.contains(&a.id) {
                    state_ids.push(a.id.clone());
                }
            }
            if state_ids.len() != state.len() {
                m.count("requests_with_repeated_app_ids");
            }
            if x.kind != ReqKind::Event && x.kind != ReqKind::Other {
                if ids != state_ids {
                    m.viol(p, "R3", &site, format!("{:?} request lists apps {:?}, the app set is {:?}", x.kind, ids, state_ids));
                }
            } else {
                // each app once (which apps and in which order is C10's subject: the per-app
                // result report follows the response's order, the others the app set's)
                let mut seen = BTreeSet::new();
                for id in &ids {
                    if !seen.insert(id.clone()) {
                        m.viol(p, "R3", &site, format!("event request lists app {id} twice"));
                    }
                }
            }
            for a in &apps {
                let id = str_field(a, "appid").unwrap_or_default();
                let (idx, st) = match state.iter().enumerate().find(|(_, s)| s.id == id) {
                    Some(x) => x,
                    None => {
                        m.viol(p, "R3", &site, format!("request carries unknown app {id}"));
                        continue;
                    }
                };
                let mut allowed: BTreeSet<String> = ["appid", "version"].iter().map(|s| s.to_string()).collect();
                let ver = l.versions.get(idx).map(|v| four_part(v)).unwrap_or_default();
                if a["version"] != ver.as_str() {
                    m.viol(p, "R3", &site, format!("app {id} version {} expected {ver}", a["version"]));
                }
                let mut expect = |key: &str, val: &Option<String>, allowed: &mut BTreeSet<String>| {
                    if let Some(v) = val {
                        allowed.insert(key.to_string());
                        if a.get(key).and_then(|x| x.as_str()) != Some(v.as_str()) {
                            m.viol(p, "R3", &site, format!("app {id}: {key}={:?} expected {:?}", a.get(key), v));
                        }
                    }
                };
                expect("fp", &st.fingerprint, &mut allowed);
                expect("cohort", &st.cohort, &mut allowed);
                expect("cohorthint", &st.cohorthint, &mut allowed);
                expect("cohortname", &st.cohortname, &mut allowed);
                for (k, v) in &st.extra {
                    expect(k, &Some(v.clone()), &mut allowed);
                }
                match x.kind {
                    ReqKind::UpdateCheck => {
                        allowed.insert("updatecheck".into());
                        allowed.insert("ping".into());
                        let mut want = serde_json::Map::new();
                        if ctx.params.disable_updates {
                            want.insert("updatedisabled".into(), Value::Bool(true));
                        }
                        if ctx.params.same_version {
                            want.insert("sameversionupdate".into(), Value::Bool(true));
                        }
                        if a.get("updatecheck") != Some(&Value::Object(want.clone())) {
                            m.viol(p, "R4", &site, format!("app {id}: updatecheck {:?} expected {:?}", a.get("updatecheck"), want));
                        }
                    }
                    ReqKind::Ping => {
                        allowed.insert("ping".into());
                    }
                    _ => {
                        allowed.insert("event".into());
                    }
                }
                if x.kind != ReqKind::Event {
                    let mut want = serde_json::Map::new();
                    if let Some(d) = st.uc {
                        want.insert("ad".into(), serde_json::json!(d));
                        want.insert("rd".into(), serde_json::json!(d));
                    }
                    if a.get("ping") != Some(&Value::Object(want.clone())) {
                        m.viol(p, "R4", &site, format!("app {id}: ping {:?} expected {:?}", a.get("ping"), want));
                    }
                }
                if let Some(evs) = a.get("event") {
                    match evs.as_array() {
                        Some(list) if !list.is_empty() => {
                            for e in list {
                                let ek = keys(e);
                                let allowed_e: BTreeSet<String> = ["eventtype", "eventresult", "errorcode", "previousversion", "nextversion", "download_time_ms"].iter().map(|s| s.to_string()).collect();
                                let typ = e["eventtype"].as_u64();
                                let res = e["eventresult"].as_u64();
                                if !ek.is_subset(&allowed_e)
                                    || !matches!(typ, Some(0 | 1 | 2 | 3 | 13 | 14 | 54))
                                    || !matches!(res, Some(0 | 1 | 2 | 3 | 4 | 8 | 9))
                                    || (e.get("errorcode").is_some() && !matches!(e["errorcode"].as_i64(), Some(0..=3)))
                                    || (e.get("download_time_ms").is_some() && e["download_time_ms"].as_u64().is_none())
                                {
                                    m.viol(p, "R5", &site, format!("app {id}: event object {e} is not in protocol form"));
                                }
                                // with a repeated app id the state machine adds one event per listed entry,
                                // each with that entry's version; the builder keeps them all in insertion order
                                let vers: Vec<String> = state.iter().enumerate().filter(|(_, s)| s.id == id).filter_map(|(k, _)| l.versions.get(k).map(|v| four_part(v))).collect();
                                let pv = e.get("previousversion").and_then(|v| v.as_str()).unwrap_or("");
                                if !vers.iter().any(|v| v == pv) {
                                    m.viol(p, "R5", &site, format!("app {id}: event previousversion {:?} expected {ver}", e.get("previousversion")));
                                }
                            }
                        }
                        _ => m.viol(p, "R5", &site, format!("app {id}: event member {evs} is not a non-empty array")),
                    }
                }
                let got_keys = keys(a);
                if !got_keys.is_subset(&allowed) {
                    m.viol(p, "R3", &site, format!("app {id}: unexpected members {:?}", got_keys.difference(&allowed).collect::<Vec<_>>()));
                }
            }
            if m.sample.is_none() && apps.len() > 1 {
                m.sample = Some(serde_json::json!({"request_kind": format!("{:?}", x.kind), "body": body}));
            }
        }
    }
    m
}

trait MethodOf {
    fn kind_method(&self) -> Option<&str>;
}
impl MethodOf for Rec {
    fn kind_method(&self) -> Option<&str> {
        match &self.kind {
            Kind::HttpSend { method, .. } => Some(method.as_str()),
            _ => None,
        }
    }
}
